#!/bin/sh
# run every check's quick tier once at VERIF_SEED (default 1) and keep the evidence files it writes
cd "$(dirname "$0")/.." || exit 2
PROPS="${*:-C01 C02 C03 C04 C05 C06 C07 C08 C09 C10 C11 C12 C13 C14 C15 C16 C17 C18 C19 C20}"
mkdir -p /tmp/vv-evidence
for p in $PROPS; do
  VERIF_SEED=${VERIF_SEED:-1} ./check $p --tier quick > /tmp/vv-evidence/$p.log 2>&1
  echo "$p rc=$? $(grep -c '^VIOLATION' /tmp/vv-evidence/$p.log) violations: $(grep "quick seed=" /tmp/vv-evidence/$p.log | tail -1)"
done
