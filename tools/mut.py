#!/venv/bin/python
"""Sensitivity validation: apply a one-place textual mutation to a scratch copy of the repository
(under /dev/shm, removed afterwards), run a property's check against it and record the outcome.

usage: tools/mut.py C07 vectorizers/linear_optimal_transport.py 'arc = i * m + j' 'arc = j * n + i' [--examples N] [--note text]
       tools/mut.py C07 --patch some.diff
Writes nothing inside /repo.  Evidence written during a mutant run is restored afterwards.
"""
import argparse
import os
import shutil
import subprocess
import sys
import tempfile
import time

VERIF = os.path.dirname(os.path.dirname(os.path.abspath(__file__)))


def main():
    ap = argparse.ArgumentParser()
    ap.add_argument("prop")
    ap.add_argument("file", nargs="?")
    ap.add_argument("old", nargs="?")
    ap.add_argument("new", nargs="?")
    ap.add_argument("--patch")
    ap.add_argument("--tier", default="quick")
    ap.add_argument("--families")
    ap.add_argument("--examples")
    ap.add_argument("--note", default="")
    ap.add_argument("--count", type=int, default=1, help="number of occurrences that must match")
    ap.add_argument("--no-record", action="store_true")
    ap.add_argument("--keep-as", default=None, help="copy up to 3 of the replays found into regress/<prop>/<name>-k.json")
    a = ap.parse_args()
    scratch = tempfile.mkdtemp(prefix="vv-mut-", dir="/dev/shm")
    ev = os.path.join(VERIF, "evidence", a.prop + ".json")
    ev_backup = open(ev).read() if os.path.exists(ev) else None
    before = set(os.listdir(os.path.join(VERIF, "replays", a.prop))) if os.path.isdir(os.path.join(VERIF, "replays", a.prop)) else set()
    try:
        subprocess.check_call(["git", "-C", "/repo", "worktree", "add", "--detach", "-f", scratch + "/r"],
                              stdout=subprocess.DEVNULL, stderr=subprocess.DEVNULL)
        # carry over uncommitted working tree changes of /repo, if any
        diff = subprocess.run(["git", "-C", "/repo", "diff"], capture_output=True).stdout
        if diff.strip():
            subprocess.run(["git", "-C", scratch + "/r", "apply"], input=diff, check=True)
        if a.patch:
            subprocess.check_call(["git", "-C", scratch + "/r", "apply", os.path.abspath(a.patch)])
            desc = "patch %s" % a.patch
        else:
            path = os.path.join(scratch, "r", a.file)
            src = open(path).read()
            if src.count(a.old) != a.count:
                print("mutation site matched %d times, expected %d" % (src.count(a.old), a.count))
                return 2
            open(path, "w").write(src.replace(a.old, a.new))
            desc = "%s: `%s` -> `%s`" % (a.file, a.old.strip(), a.new.strip())
        env = dict(os.environ, VERIF_REPO=scratch + "/r")
        cmd = [os.path.join(VERIF, "check"), a.prop, "--tier", a.tier]
        if a.families:
            cmd += ["--families", a.families]
        if a.examples:
            cmd += ["--examples", a.examples]
        t0 = time.time()
        p = subprocess.run(cmd, env=env, capture_output=True, text=True)
        dt = time.time() - t0
        out = [l for l in p.stdout.splitlines() if "conda" not in l]
        print("\n".join(out[-25:]))
        if p.returncode == 2:
            print(p.stderr[-3000:])
        verdict = {0: "SURVIVED", 1: "detected", 2: "HARNESS-ERROR"}.get(p.returncode, "rc=%d" % p.returncode)
        import re
        sites = sorted({m.group(1) for m in (re.match(r"^\s+(\S+ @ [^:]+):", l) for l in out) if m})
        desc = " \\n ".join(x.strip() for x in desc.splitlines())
        line = "| %s | %s | %s | %.0fs | %s | %s |\n" % (a.prop, desc.replace("|", "\\|"), verdict, dt, "; ".join(sites)[:200].replace("|", "\\|"), a.note)
        print(line)
        if not a.no_record:
            with open(os.path.join(VERIF, "mutants.md"), "a") as f:
                f.write(line)
        return 0 if p.returncode == 1 else 1
    finally:
        subprocess.run(["git", "-C", "/repo", "worktree", "remove", "--force", scratch + "/r"],
                       stdout=subprocess.DEVNULL, stderr=subprocess.DEVNULL)
        shutil.rmtree(scratch, ignore_errors=True)
        subprocess.run(["git", "-C", "/repo", "worktree", "prune"])
        if ev_backup is not None:
            open(ev, "w").write(ev_backup)
        d = os.path.join(VERIF, "replays", a.prop)
        if os.path.isdir(d):
            new = sorted(set(os.listdir(d)) - before, key=lambda f: os.path.getsize(os.path.join(d, f)))
            if a.keep_as:
                rd = os.path.join(VERIF, "regress", a.prop)
                os.makedirs(rd, exist_ok=True)
                for k, f in enumerate(new[:3]):
                    shutil.copy(os.path.join(d, f), os.path.join(rd, "%s-%d.json" % (a.keep_as, k)))
            for f in new:
                os.unlink(os.path.join(d, f))


if __name__ == "__main__":
    sys.exit(main())
