#!/venv/bin/python
"""Confirm a seeded defect and run checks against it.

usage: tools/seedcheck.py <seed_dir> <PROP[,PROP...]> [--tests 'pytest args'] [--no-checks] [--families f]
  seed_dir contains patch.diff and demo.py (and meta.json).
Steps (all in a scratch worktree of /repo's HEAD under /dev/shm, removed afterwards):
  1. demo.py on the unpatched tree must exit 0
  2. patch applies; demo.py must exit non-zero
  3. optional: pytest <args> must pass (apart from the baseline's always-failing tests)
  4. each listed property check is run with VERIF_REPO=<scratch>; exit status reported
Prints a JSON summary line at the end.
"""
import argparse
import json
import os
import shutil
import subprocess
import sys
import tempfile
import time

VERIF = os.path.dirname(os.path.dirname(os.path.abspath(__file__)))
ALWAYS_FAIL = ["test_wasserstein_based_vectorizer_bad_params[lil-LOT_exact"]


def run(cmd, env=None, cwd=None, timeout=None):
    p = subprocess.run(cmd, env=env, cwd=cwd, capture_output=True, text=True, timeout=timeout)
    return p.returncode, p.stdout + p.stderr


def main():
    ap = argparse.ArgumentParser()
    ap.add_argument("seed_dir")
    ap.add_argument("props")
    ap.add_argument("--tests", default=None)
    ap.add_argument("--no-checks", action="store_true")
    ap.add_argument("--families", default=None)
    ap.add_argument("--tier", default="quick")
    ap.add_argument("--harvest", action="store_true", help="copy up to 3 replays per property into regress/<prop>/<seed name>-k.json")
    a = ap.parse_args()
    seed = os.path.abspath(a.seed_dir)
    scratch = tempfile.mkdtemp(prefix="vv-seed-", dir="/dev/shm")
    wt = scratch + "/r"
    summary = {"seed": seed}
    saved = {}
    try:
        subprocess.check_call(["git", "-C", "/repo", "worktree", "add", "--detach", "-f", wt], stdout=subprocess.DEVNULL, stderr=subprocess.DEVNULL)
        env = dict(os.environ, PYTHONPATH=wt, PYTHONHASHSEED="0")
        rc0, out0 = run(["/venv/bin/python", "-W", "ignore", seed + "/demo.py"], env=env, cwd=wt, timeout=1800)
        summary["demo_unpatched_rc"] = rc0
        rc, out = run(["git", "-C", wt, "apply", "--3way", seed + "/patch.diff"])
        if rc != 0:
            rc, out = run(["git", "-C", wt, "apply", seed + "/patch.diff"])
        summary["patch_applies"] = rc == 0
        if rc != 0:
            print(out[-2000:])
            print(json.dumps(summary))
            return 2
        rc1, out1 = run(["/venv/bin/python", "-W", "ignore", seed + "/demo.py"], env=env, cwd=wt, timeout=1800)
        summary["demo_patched_rc"] = rc1
        if rc0 != 0:
            print("demo fails on the unpatched tree:\n", out0[-1500:])
        if rc1 == 0:
            print("demo passes on the patched tree")
        if a.tests:
            t0 = time.time()
            rc, out = run(["bash", "-c", "cd %s && /venv/bin/python -m pytest -q -p no:cacheprovider --timeout=900 %s" % (wt, a.tests)],
                          env=env, cwd=wt)
            tail = [l for l in out.splitlines() if l.startswith("FAILED") or " passed" in l or " failed" in l]
            unexpected = [l for l in tail if l.startswith("FAILED") and not any(x in l for x in ALWAYS_FAIL)]
            summary["tests"] = {"tail": tail[-4:], "unexpected_failures": unexpected, "wall_s": round(time.time() - t0)}
        if not a.no_checks:
            summary["checks"] = {}
            for prop in a.props.split(","):
                ev = os.path.join(VERIF, "evidence", prop + ".json")
                saved[ev] = open(ev).read() if os.path.exists(ev) else None
                cmd = [os.path.join(VERIF, "check"), prop, "--tier", a.tier]
                if a.families:
                    cmd += ["--families", a.families]
                t0 = time.time()
                rdir = os.path.join(VERIF, "replays", prop)
                before = set(os.listdir(rdir)) if os.path.isdir(rdir) else set()
                rc, out = run(cmd, env=dict(os.environ, VERIF_REPO=wt))
                if a.harvest and os.path.isdir(rdir):
                    new = sorted(set(os.listdir(rdir)) - before, key=lambda f: os.path.getsize(os.path.join(rdir, f)))
                    gd = os.path.join(VERIF, "regress", prop)
                    os.makedirs(gd, exist_ok=True)
                    for k, f in enumerate(new[:3]):
                        shutil.copy(os.path.join(rdir, f), os.path.join(gd, "seed-%s-%d.json" % (os.path.basename(seed), k)))
                lines = [l for l in out.splitlines() if "conda" not in l]
                viol = [l for l in lines if l.startswith("VIOLATION") or l.startswith("   ")]
                print("\n".join(l[:300] for l in viol[:12]))
                print(lines[-1] if lines else "")
                summary["checks"][prop] = {"rc": rc, "wall_s": round(time.time() - t0),
                                           "signatures": sorted({l.strip().split(":")[0] for l in viol if " @ " in l})[:10]}
        print(json.dumps(summary))
        return 0
    finally:
        subprocess.run(["git", "-C", "/repo", "worktree", "remove", "--force", wt], stdout=subprocess.DEVNULL, stderr=subprocess.DEVNULL)
        shutil.rmtree(scratch, ignore_errors=True)
        subprocess.run(["git", "-C", "/repo", "worktree", "prune"])
        for ev, body in saved.items():
            if body is not None:
                open(ev, "w").write(body)


if __name__ == "__main__":
    sys.exit(main())
