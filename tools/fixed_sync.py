#!/venv/bin/python
"""Regenerate the 'fixed' list of known_findings.json from tools/fixed_entries.json, looking each commit up by subject."""
import json, os, subprocess, sys
V = os.path.dirname(os.path.dirname(os.path.abspath(__file__)))
src = json.load(open(os.path.join(V, "tools", "fixed_entries.json")))
log = subprocess.run(["git", "-C", "/repo", "log", "--format=%h\t%s"], capture_output=True, text=True).stdout.splitlines()
by_subject = {l.split("\t", 1)[1]: l.split("\t", 1)[0] for l in log}
out = []
for e in src:
    if e["subject"] not in by_subject:
        sys.exit("no commit with subject %r" % e["subject"])
    out.append("fixed: property=%s %s %s" % (e["property"], by_subject[e["subject"]], e["text"]))
p = os.path.join(V, "known_findings.json")
k = json.load(open(p))
k["fixed"] = out
json.dump(k, open(p, "w"), indent=1)
fixes = [l for l in log if l.split("\t", 1)[1].startswith("fix:")]
missing = [l for l in fixes if l.split("\t", 1)[1] not in {e["subject"] for e in src}]
print("%d fixed entries; fix commits without an entry: %s" % (len(out), missing))
