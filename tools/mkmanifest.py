#!/venv/bin/python
"""Regenerate MANIFEST.json from the table below (keeps it schema-valid at all times)."""
import json
import os

VERIF = os.path.dirname(os.path.dirname(os.path.abspath(__file__)))

HOOK_COMMITS = ["309dfd1"]  # filled once the guarded hook is committed in /repo

CHECKS = {
    "C07": dict(
        technique="property-based testing (Hypothesis) against a verified LP dual certificate (weak duality)",
        text="Generated-input search: thousands of (p, q, cost, layout) cases per run (sizes 1..12 quick, 1..64 thorough, plus a family of problems with about 2^16 to 1.35e5 cells); every plan is checked for sign, both marginals "
             "(1e-9) and optimality (1e-7 relative) against a dual lower bound that is verified in floating point, so the verdict does "
             "not rest on the LP solver's tolerances. Exploration only: absence of violations on the generated cases, plus mutants "
             "showing the check fails when the arc mapping, supply sign or cost orientation is broken.",
        note="Trusts numpy arithmetic, weak LP duality, and scipy/HiGHS only as a source of candidate duals (a bad candidate yields "
             "'inconclusive', never a verdict). The simplex core lives in pynndescent; it is exercised through the repository's wrapper.",
        ref="7/C07"),
}

CHECKS["C05"] = dict(
    technique="property-based testing (Hypothesis) against an exact integer/Fraction vocabulary specification + exhaustive enumeration of (count, total) pairs",
    text="Generated corpora and pruning-option subsets (bounds on or next to the real counts) through every preprocessing entry point "
         "(plain, timed, multiset, tree, NgramVectorizer incl. second-stage n-gram pruning, TokenCooccurrenceVectorizer incl. the empty-"
         "vocabulary ValueError) against an independent specification; plus complete enumeration of all count/total pairs up to N=300 "
         "(quick) / 1200 (thorough) for the 'count equals the bound' case. Exploration with one exhaustive sub-space.",
    note="Frequency-bound ties within 1e-6 relative are accepted either way; max_unique_tokens is judged by a validity predicate that admits "
         "any tie-breaking; corpora in which no n-gram exists are not judged for n >= 2 (nothing to learn).",
    ref="7/C05")

CHECKS["C18"] = dict(
    technique="property-based testing (Hypothesis): metric axioms, metamorphic proportional-input relation, differential sparse-vs-dense, definition-level float64 reference",
    text="20 000 (quick) / 10^6 (thorough) generated vector pairs and triples per run in five relations (independent, proportional, "
         "disjoint, single-entry, equal) and four sparse encodings; every distance is checked for finiteness, sign, symmetry, range, "
         "vanishing on proportional inputs, the triangle inequality, agreement with numpy formulas written from the definitions, "
         "sparse = dense, and the sparse helpers against dense arithmetic (indices and values). Exploration.",
    note="Entries are 0 or within [1e-3, 1e3]. The EPS smoothing inside the divergences is treated as part of their definition; where "
         "the smoothed definition itself does not vanish / differs on empty coordinates (computed by the reference) the corresponding "
         "assertion is skipped and counted (labels smoothing-*).",
    ref="7/C18")

CHECKS["C17"] = dict(
    technique="property-based testing (Hypothesis): float64 KL reference from the definition, differential across storage formats, permutation and linearity metamorphic relations",
    text="Generated non-negative matrices in seven sparse storages (and ndarray for the transformer) with empty rows/columns, explicit "
         "zeros, unsorted indices and duplicate COO entries; information_weight is compared with an independent float64 KL computation, "
         "across storages and under row/column permutations; the transformer is checked to be a fixed non-negative column scaling "
         "(X @ diag(w)), linear and support-preserving, with weights derived from the KL reference. Exploration.",
    note="Approximate-prior and supervised variants are held only to the structural claims. F27 (all-zero KL -> NaN weights) is a "
         "recorded known finding, matched by the reference-computed predicate all_kl_zero.",
    ref="7/C17")

CHECKS["C19"] = dict(
    technique="property-based testing (Hypothesis) against a numpy slicing reference, with guard-cell sentinels around every input buffer",
    text="Generated sequences (1-d / multivariate, int / float) embedded in larger buffers whose guard cells hold a sentinel, every "
         "form of window_sample, padding, strides and kernel lists; the transformer output is compared window by window with "
         "independent numpy slicing at the documented positions times kernel matrices built from the definitions, and the window count "
         "with the formula of the property; SequentialDifferenceTransformer against direct differences. Exploration.",
    note="Kernel matrices of position_velocity, gaussian_weight and explicit ndarrays are taken as given (only the windowing is judged). "
         "Each generated kernel list costs a numba compile, which bounds the number of cases per run.",
    ref="7/C19")

CHECKS["C20"] = dict(
    technique="property-based testing (Hypothesis): partition validity predicate + independent recount for histograms; permutation metamorphic relation and closed-form Gaussian mixture reference for KDE",
    text="Generated training/transform collections with values placed on bin edges, range bounds and far outside; bin_intervals_ must be "
         "a right-closed gap-free increasing partition of the absolute range, every row an independent count per bin and conserve the "
         "in-range events. KDE rows are checked for shape, sign, permutation invariance, the Gaussian formula and dependence on "
         "(bandwidth_, evaluation_grid_) only. Exploration.",
    note="Training data has >= 2 distinct values strictly inside absolute_range; quantile strategy on non-negative data; KDE with explicit bandwidth.",
    ref="7/C20")

CHECKS["C16"] = dict(
    technique="property-based testing (Hypothesis) against a pure-Python Lempel-Ziv parse; metamorphic hashed-vs-unhashed relation under a computed injectivity condition",
    text="Generated training and transform strings (empty, one character, repetitive, unicode), dictionary caps, column hashing and base "
         "dictionaries; each row is compared with an independent parse of its own string through column_label_dictionary_ (fit_transform and "
         "transform, unseen phrases), row totals with len(s) + base counts, transform(train) with fit_transform(train); with hashing the "
         "width bound and, when the fitted hash is injective on every substring involved, equality with the relabelled unhashed row. Exploration.",
    note="The reference reproduces the incremental parse the class documents; base_dictionary only without hashing.",
    ref="7/C16")
CHECKS["C09"] = dict(
    technique="property-based testing (Hypothesis) with round-trip, differential (transform vs fit_transform, three return types, two fits) oracles + exhaustive enumeration of short strings",
    text="Generated corpora over tiny alphabets and unicode, vocabulary caps that are reached, all return types; every encoding must decode "
         "to its string, codes must be in range, tokens_ must be the concatenation of code_list_, the cap must hold, transform(train) must "
         "equal fit_transform(train), and the tokens/matrix outputs must be views of the sequences output. Exhaustively: every string over "
         "{a,b} up to length 10 (quick) / {a,b,c} up to 9 (thorough) through 20 fixed models. Exploration with one exhaustive sub-space.",
    note="A corpus without a repeated adjacent pair cannot be learned from: recorded finding F11 (accidental ValueError), matched by the "
         "reference-computed predicate 'unlearnable'.",
    ref="7/C09")
CHECKS["C06"] = dict(
    technique="property-based testing (Hypothesis) against Counter-based exact counts compared through the fitted label dictionaries; model-merge differential (a+b vs fit on concatenation)",
    text="Generated corpora / edge lists with duplicates, short documents, pruning, masking, fixed dictionaries, joint spaces and both "
         "input layouts; every cell of fit_transform and of transform on a second input must equal an independent count (n-grams, "
         "kernel-weighted skip-grams, summed edge values) and the shape must be the fitted one. The sum of two unigram models is compared "
         "with a model fitted on the concatenated corpora (columns, training matrix, transform). Exploration.",
    note="Reads the private _train_matrix of merged models (as the repository's test does). Skip-gram variable radii use the library's "
         "radius formula on independently computed frequencies.",
    ref="7/C06")

CHECKS["C15"] = dict(
    technique="property-based testing (Hypothesis) against dense walk counting on parent arrays; orientation algebra; differential against TokenCooccurrenceVectorizer on chains",
    text="Generated forests (chains, stars, random trees, isolated nodes; CSR / LIL / shared LIL adjacency), kernels with offset / "
         "normalize / power, all four orientations, pruning with and without mask and nullify_mask; fit_transform and transform of a second "
         "forest are compared cell by cell with sum_k w_k A^k accumulated by label after an independent contraction of removed nodes; "
         "before/after/symmetric/directional are checked against each other, and chains against the sequence vectorizer. Exploration.",
    note="The chain equivalence is asserted without kernel normalisation (the two vectorizers normalise over different windows by design).",
    ref="7/C15")

CHECKS["C03"] = dict(
    technique="property-based testing (Hypothesis) against a naive reference of the windowed kernel-weighted count, compared through the fitted label dictionaries; metamorphic timestamp translation and before/after transpose",
    text="Generated corpora and 1-3 window specifications per estimator for the token, timed, multiset and n-gram vectorizers; every "
         "cell of fit_transform is compared with an independently written per-occurrence reference through token_label_dictionary_ / "
         "column_label_dictionary_ (which must themselves be the documented ones) within the float32 summation bound; timed matrices "
         "must be invariant under translating all timestamps by 2^20 and 2^31 and delta_mean_ must be the mean consecutive difference. "
         "Exploration.",
    note="Variable radii: the library's radius formula on independently computed frequencies. Multiset kernels with offset >= 1 are the "
         "recorded finding F30 (matched by the case tag multi_offset). n_iter=0, n_threads=1 here (C11, C04 cover the rest).",
    ref="7/C03")

CHECKS["C14"] = dict(
    technique="property-based testing (Hypothesis): the C03 reference evaluated on independently masked / deleted sequences; explicit zero-row/zero-column invariants for the nullified mask; transform-vs-fit differential",
    text="C03-style cases forced to remove at least one token and keep one, with mask_string unset / set and nullify_mask, for the four "
         "sequence co-occurrence vectorizers, the tree vectorizer (C15 reference) and NgramVectorizer (C06 reference, fit and transform "
         "on a second corpus). The expected sequences are built in Python (deletion vs in-place replacement by index len(kept)); the mask "
         "must be exactly one extra last dictionary entry; nullified: mask row and every *_mask column are zero and all other cells equal "
         "the reference with masked contexts weighted zero before normalisation. Exploration.",
    note="Prunings that remove every token (vocabulary = mask only) are outside the quantifier and skipped (label all-removed). "
         "F30 (multiset offset) and F12 (subgram unigrams) are known findings that surface here through the shared references.",
    ref="7/C14")
CHECKS["C11"] = dict(
    technique="property-based testing (Hypothesis) against a dense float64 re-implementation of the documented EM / epsilon procedure, plus range / column-sum / support invariants",
    text="C03 corpora and window settings with n_iter 0-3, generic epsilon values and n_threads 1-3 for the four vectorizers; the result "
         "is compared (rtol 1e-3, atol 1e-5) with an independent dense implementation that starts from the C03 reference counts and "
         "replays normalise / threshold / E-step / M-step per occurrence; entries in [0,1], column sums, and support containment are "
         "asserted regardless. Cases where a value comes within 1e-4 of epsilon are discarded and counted. Exploration.",
    note="float32 accumulation in the kernels vs float64 reference bounds the tolerance; multiset kernel offsets are fixed to 0 here.",
    ref="7/C11")

CHECKS["C04"] = dict(
    technique="property-based testing / differential execution: the same corpus under many (n_threads, coo_initial_memory, pool size, threshold) configurations against naive and vectorised reference counts; worker interpreters for lowered thresholds with crash detection",
    text="Four generated families: small corpora in worker interpreters whose accumulator threshold is lowered through the guarded hook "
         "(many sort/merge/growth rounds); seed-generated corpora of 7e4 - 2e6 events at the real threshold with vocabularies 1..1000 and "
         "coo_initial_memory from '1k' up; fit-small / transform-large; n_threads 1..16 x dask pool sizes x NUMBA_NUM_THREADS 1/16 with "
         "repetition. Every matrix must equal the reference count (exactly for flat kernels) and a dying interpreter is a violation. "
         "Exploration; thread schedules are varied, not controlled.",
    note="A failure seen only under a lowered threshold is re-run at the real threshold on a proportionally larger corpus and reported as "
         "'inconclusive (lowered-threshold only)' if it does not reproduce there. Uses the guarded hook VECTORIZERS_VERIF_COO_LIMIT.",
    ref="7/C04")

CHECKS["C02"] = dict(
    technique="property-based testing (Hypothesis), differential: fit_transform on one instance vs fit().transform on a twin built from deep-copied parameters, for 27 estimator families",
    text="Every estimator family gets generated parameters that select code paths (metric, input_method, tiny memory_size, kernels, windows, "
         "masks, n_iter, return_type, vocabulary caps, SVD algorithm, random_state) and a training input; fit must return the estimator and "
         "fit_transform(X) must equal fit(X).transform(X): exactly for count / encoding outputs, rtol 1e-5 for float32 co-occurrence values, "
         "rtol 1e-3 for SVD-compressed outputs when n_components >= rank (the smaller-than-rank regime is generated and labelled, not "
         "asserted). Exploration.",
    note="Clean rejections (the same ValueError / NotImplementedError on both paths) are accepted; any other exception on either path is reported.",
    ref="7/C02")

CHECKS["C01"] = dict(
    technique="property-based testing (Hypothesis): shape / row-order / unseen-vocabulary metamorphic relations on an independent transform set for 22 estimator families, plus the C03 reference on transform inputs for the co-occurrence family",
    text="For every row-producing family a model is fitted on X and applied to an independently generated X' over a superset alphabet "
         "(unseen tokens, labels, characters, phrases, empty items, different lengths): no exception may escape, the result has one row "
         "per item (or per fitted vocabulary entry) and exactly the fitted width, row i equals the transform of item i alone, deleting "
         "unseen tokens from X' does not change the result, and co-occurrence cells of transform(X') equal the reference count on X' "
         "with the fitted vocabulary. Exploration.",
    note="Per-column meaning of Ngram / LZ / BPE / Histogram / EdgeList transforms on unseen inputs is decided by C06, C16, C09, C20 "
         "(their references are evaluated on transform inputs as well); corpora with nothing to learn are labelled degenerate and skipped.",
    ref="7/C01")
CHECKS["C12"] = dict(
    technique="property-based testing (Hypothesis), metamorphic: batch split, permutation and duplication plans over fitted row-wise estimators; zero-row contamination probe; shards under NUMBA_NUM_THREADS 1/4/16",
    text="A fitted row-wise estimator (21 families incl. Wasserstein methods / input formats with tiny memory_size and Sinkhorn chunk "
         "sizes 1, 3, 32) and a generated plan over 2-12 items: transform(A + B) must equal vstack(transform(A), transform(B)), "
         "transform(perm(X)) must equal perm(transform(X)), duplicated items must give identical rows, and an all-zero distribution "
         "inside a batch must not change the other rows. Exploration; thread-pool sizes are varied per shard.",
    note="Sinkhorn-based outputs use rtol 1e-4 (shared stopping test per chunk). NaN outputs are compared position-wise as equal here.",
    ref="7/C12")

CHECKS["C10"] = dict(
    technique="differential execution of generated scenarios in three worker interpreters (normal JIT, NUMBA_BOUNDSCHECK=1, NUMBA_DISABLE_JIT=1) with exception classification and result comparison",
    text="Scenarios (fit_transform on X, transform on X') from the generators of 19 kernel-backed estimator families (edge-biased: empty / "
         "one-element items, radius beyond the sequence, epsilon-pruned EM cells, coo_initial_memory='1k', tiny matrices), the distance "
         "functions, transport_plan and the LOT kernels (called directly) are executed in three persistent interpreters; an IndexError / UnboundLocalError / NameError in a "
         "checked mode, a result that differs from the normal compiled run, or a dying interpreter is a violation. Exploration.",
    note="Bounds checking observes only the accesses made on generated inputs. Interpreted-mode-only exceptions of other types (LZ hashing "
         "overflows in pure Python) make that scenario inconclusive for that mode and are counted. Wasserstein scenarios pass explicit "
         "reference vectors so that the three runs are comparable.",
    ref="7/C10")

CHECKS["C08"] = dict(
    technique="property-based testing (Hypothesis), metamorphic: re-encodings of the same measures (scale, zero-weight support, permutation, split, duplicate), memory / chunk size variation, input-format differential, isometry against an LP-certified reference",
    text="A fitted Wasserstein-style model is applied to re-encoded transform inputs drawn from the group generated by row scaling, "
         "zero-weight support points (explicit zeros), support permutation, splitting into duplicates and row duplication; the rows must "
         "be unchanged, also when max_distribution_size truncates the rows (distinct weights, no splitting). transform must agree across memory_size / chunk sizes; spmatrix, lil and generator inputs with shared references "
         "must give equal embeddings; with full-rank n_components the pairwise distances of embedding_ must equal those of the "
         "uncompressed LOT vectors (euclidean: own optimal plans certified by a dual bound; cosine: the module's uncompressed vectors). "
         "Exploration.",
    note="Vectors get a deterministic jitter so that optimal plans are unique. Heuristic / Approximate models keep their training vectors "
         "(only scaling and duplication are expressible) and are by design not scale invariant for normalisation power != 1 (not asserted there).",
    ref="7/C08")
CHECKS["C13"] = dict(
    technique="model-based generation of call histories (Hypothesis-generated operation lists over fit / fit_transform / transform / raising transform / refit-twin) with invariants checked after every step",
    text="For 23 estimator families a history of 3-10 operations is generated as one shrinkable value; the input and constructor-parameter "
         "objects are created once and reused. After every step: inputs and parameter containers are deep-equal to their snapshots "
         "(raw bytes of arrays, raw data/indices/indptr of sparse matrices), repeated transforms of an input return the first result, "
         "a twin with the same integer random_state on deep-copied data agrees to 1e-9, and the private TMPDIR / cachedir is empty - "
         "also after calls that raise. Exploration over histories and API-boundary faults.",
    note="Histories are explicit operation lists rather than a RuleBasedStateMachine so that they serialise to the JSON replay format; "
         "faults inside numpy / scipy (disk full) are not injected.",
    ref="7/C13")

PENDING_REASON = "check not built yet in this revision of /verif (planned, see DESIGN.md section 7)"


def main():
    props = [json.loads(l) for l in open(os.path.join(VERIF, "properties.jsonl"))]
    checks, na = [], []
    for p in props:
        pid = p["id"]
        c = CHECKS.get(pid)
        if c is None or not os.path.exists(os.path.join(VERIF, "vv", "props", pid.lower() + ".py")):
            na.append({"property_id": pid, "reason": PENDING_REASON})
            continue
        checks.append({
            "property_id": pid,
            "quick_cmd": "./check %s --tier quick" % pid,
            "thorough_cmd": "./check %s --tier thorough" % pid,
            "evidence_file": "evidence/%s.json" % pid,
            "replay_cmd_template": "./check %s --replay {path}" % pid,
            "engine": "vv",
            "level_claimed": {"category": "exploration", "text": c["text"], "design_ref": "DESIGN.md section " + c["ref"]},
            "level_note": c["note"],
            "technique": c["technique"],
        })
    man = {
        "version": 1,
        "setup_cmd": "./setup.sh",
        "hooks": {
            "guard": "VECTORIZERS_VERIF",
            "enable": "environment variable VECTORIZERS_VERIF=1 (set by ./check for every interpreter it starts); the only hook is the "
                      "optional override VECTORIZERS_VERIF_COO_LIMIT of the accumulator threshold, read at import time",
            "baseline_off_cmd": "cd /repo && env -u VECTORIZERS_VERIF -u VECTORIZERS_VERIF_COO_LIMIT /venv/bin/python -m pytest -ra -q -p no:cacheprovider --timeout=900 --continue-on-collection-errors",
            "source_commits": HOOK_COMMITS,
            "add_only": True,
        },
        "engines": [{"name": "vv", "path": "vv/", "serves_properties": [c["property_id"] for c in checks],
                     "kind_free_text": "Hypothesis-driven generators (stateful machines for histories, exhaustive enumeration of small finite "
                                       "sub-spaces) against independent reference models; sharded over fresh interpreters; differential "
                                       "execution under NUMBA_BOUNDSCHECK / NUMBA_DISABLE_JIT workers"}],
        "checks": checks,
        "not_applicable": na,
        "notes": "Entry point ./check <id> --tier quick|thorough|--replay <file>. Exit 0 held / 1 VIOLATION / 2 harness problem or "
                 "inconclusive. Known findings: known_findings.json. Seeded mutants: seeded/. Sensitivity log: mutants.md.",
    }
    with open(os.path.join(VERIF, "MANIFEST.json"), "w") as f:
        json.dump(man, f, indent=1)
    print("MANIFEST: %d checks, %d not_applicable" % (len(checks), len(na)))


if __name__ == "__main__":
    main()
