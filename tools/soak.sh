#!/bin/sh
# run every check's quick tier once for each given seed; prints one line per (property, seed)
# usage: tools/soak.sh "2 3" [props...]
cd "$(dirname "$0")/.." || exit 2
SEEDS="${1:-2}"; shift
PROPS="${*:-C01 C02 C03 C04 C05 C06 C07 C08 C09 C10 C11 C12 C13 C14 C15 C16 C17 C18 C19 C20}"
mkdir -p /tmp/vv-soak
for seed in $SEEDS; do
  for p in $PROPS; do
    cp evidence/$p.json /tmp/vv-soak/$p.evidence.bak 2>/dev/null
    VERIF_SEED=$seed ./check $p --tier quick > /tmp/vv-soak/$p.$seed.log 2>&1
    rc=$?
    echo "$p seed=$seed rc=$rc $(grep -c '^VIOLATION' /tmp/vv-soak/$p.$seed.log) violations: $(grep "quick seed=" /tmp/vv-soak/$p.$seed.log | tail -1)"
    cp /tmp/vv-soak/$p.evidence.bak evidence/$p.json 2>/dev/null
  done
done
