"""Registry of reference-model self tests (each property module may add one)."""
TESTS = []


def register(fn):
    TESTS.append(fn)
    return fn


def run_all():
    import importlib, pkgutil
    import vv.ref
    for m in pkgutil.iter_modules(vv.ref.__path__):
        mod = importlib.import_module("vv.ref." + m.name)
        if hasattr(mod, "selftest"):
            mod.selftest()
