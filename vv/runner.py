"""Check driver:  python -m vv.runner C07 --tier quick | --replay replays/C07/x.json

Spawns one fresh interpreter per (family, shard), merges their reports, re-runs the
committed regression inputs, writes evidence/<id>.json, prints VIOLATION / KNOWN-FINDING
lines and sets the exit status (0 held, 1 violation, 2 harness problem / inconclusive).
"""
import argparse
import importlib
import json
import os
import shutil
import signal
import subprocess
import sys
import tempfile
import time
from collections import Counter

from vv import core

PY = sys.executable


def shard_env(extra=None):
    env = dict(os.environ)
    env["PYTHONPATH"] = core.REPO_DIR + os.pathsep + core.VERIF_DIR
    env["PYTHONHASHSEED"] = "0"
    env.setdefault("NUMBA_NUM_THREADS", "2")
    env["OMP_NUM_THREADS"] = "1"
    env["OPENBLAS_NUM_THREADS"] = "1"
    env["MKL_NUM_THREADS"] = "1"
    env["VECTORIZERS_VERIF"] = "1"
    env["PYTHONWARNINGS"] = "ignore"
    env.pop("VECTORIZERS_VERIF_COO_LIMIT", None)
    if extra:
        env.update({k: str(v) for k, v in extra.items()})
    return env


def write_replay(prop_id, family, case, failures):
    d = os.path.join(core.VERIF_DIR, "replays", prop_id)
    os.makedirs(d, exist_ok=True)
    body = {"property": prop_id, "family": family, "case": case, "failures": failures}
    name = core.digest({"family": family, "case": case})[:16] + ".json"
    path = os.path.join(d, name)
    with open(path, "w") as f:
        f.write(json.dumps(json.loads(core.canon_json(body)), indent=1, sort_keys=True))
    return os.path.relpath(path, core.VERIF_DIR)


def replay_file(prop_id, path, known, verbose=True):
    """Re-run a stored case without Hypothesis.  Returns (unmatched failures, matched ids)."""
    with open(path) as f:
        body = json.load(f)
    mod = importlib.import_module("vv.props.%s" % prop_id.lower())
    fam = mod.FAMILIES[body["family"]]
    res = fam.check(body["case"])
    unmatched, matched = [], []
    for fl in res.failures:
        fid = known.match(prop_id, fl)
        if fid is None:
            unmatched.append(fl)
        else:
            matched.append(fid)
    if verbose:
        for fl in res.failures:
            print("  ", fl)
    return unmatched, matched


def main(argv=None):
    ap = argparse.ArgumentParser()
    ap.add_argument("prop")
    ap.add_argument("--tier", default=os.environ.get("VERIF_TIER", "quick"), choices=["quick", "thorough"])
    ap.add_argument("--replay")
    ap.add_argument("--families", default=None, help="comma separated subset (debugging; evidence still written)")
    ap.add_argument("--examples", type=int, default=None, help="override examples per family (debugging)")
    ap.add_argument("--jobs", type=int, default=int(os.environ.get("VERIF_JOBS", "16")))
    args = ap.parse_args(argv)
    prop_id = args.prop.upper()
    seed = int(os.environ.get("VERIF_SEED", "1"))
    known = core.KnownFindings()
    sys.path.insert(0, core.REPO_DIR)

    if args.replay:
        os.environ.setdefault("VECTORIZERS_VERIF", "1")
        unmatched, matched = replay_file(prop_id, args.replay, known)
        for fid in sorted(set(matched)):
            print("KNOWN-FINDING: property=%s %s: %s" % (prop_id, fid, known.describe(fid)))
        if unmatched:
            print("VIOLATION property=%s replay=%s" % (prop_id, args.replay))
            return 1
        print("replay: property held on this case")
        return 0

    t0 = time.time()
    mod = importlib.import_module("vv.props.%s" % prop_id.lower())
    fams = mod.FAMILIES
    if args.families:
        fams = {k: v for k, v in fams.items() if k in args.families.split(",")}
    tmp = tempfile.mkdtemp(prefix="vv-%s-" % prop_id, dir="/dev/shm" if os.path.isdir("/dev/shm") else None)
    harness_errors = []
    try:
        jobs = []
        for name, fam in fams.items():
            k = fam.shards[args.tier]
            for s in range(k):
                out = os.path.join(tmp, "%s.%d.json" % (name, s))
                cmd = [PY, "-m", "vv.shard", prop_id, name, args.tier, str(seed), str(s), str(k), out]
                env = shard_env(fam.env)
                if args.examples is not None:
                    env["VERIF_EXAMPLES_OVERRIDE"] = str(args.examples)
                jobs.append({"name": name, "shard": s, "cmd": cmd, "env": env, "out": out})
        # regression inputs (committed, curated) run first, in one fresh interpreter
        regress_dir = os.path.join(core.VERIF_DIR, "regress", prop_id)
        regress_files = sorted(
            os.path.join(regress_dir, f) for f in (os.listdir(regress_dir) if os.path.isdir(regress_dir) else [])
            if f.endswith(".json"))
        regress_out = os.path.join(tmp, "regress.json")
        running = []
        if regress_files:
            p = subprocess.Popen([PY, "-m", "vv.regress", prop_id, regress_out] + regress_files,
                                 env=shard_env(getattr(mod, "REGRESS_ENV", None)), cwd=core.VERIF_DIR)
            running.append(({"name": "(regress)", "shard": 0, "out": regress_out}, p, time.time()))
        limit = float(os.environ.get("VERIF_SHARD_TIMEOUT", "1500" if args.tier == "quick" else "10800"))
        pending = list(jobs)
        reports = []
        crashes = []
        timed_out_violations = []
        while pending or running:
            while pending and len(running) < args.jobs:
                j = pending.pop(0)
                p = subprocess.Popen(j["cmd"], env=j["env"], cwd=core.VERIF_DIR)
                running.append((j, p, time.time()))
            time.sleep(0.2)
            still = []
            for j, p, ts in running:
                rc = p.poll()
                if rc is None:
                    if time.time() - ts > limit:
                        p.kill()
                        p.wait()
                        partial = j["out"] + ".partial"
                        if os.path.exists(partial):
                            with open(partial) as f:
                                pr = json.load(f)
                            timed_out_violations.append(pr)
                            print("note: %s shard %d hit the time limit of %.0fs while shrinking; its unshrunk finding is reported" % (j["name"], j["shard"], limit))
                        else:
                            harness_errors.append("%s shard %d: time limit of %.0fs hit (inconclusive)" % (j["name"], j["shard"], limit))
                    else:
                        still.append((j, p, ts))
                    continue
                if os.path.exists(j["out"]):
                    with open(j["out"]) as f:
                        reports.append(json.load(f))
                elif rc < 0 and -rc in (signal.SIGSEGV, signal.SIGABRT, signal.SIGBUS, signal.SIGILL, signal.SIGFPE):
                    cur = j["out"] + ".cur"
                    case = None
                    if os.path.exists(cur):
                        with open(cur) as f:
                            case = json.load(f)
                    crashes.append((j, -rc, case))
                else:
                    harness_errors.append("%s shard %d: exit status %s without a report" % (j["name"], j["shard"], rc))
            running = still

        # ---------------------------------------------------------------- merge
        evaluations = 0
        nontrivial = set()
        labels = Counter()
        excluded = Counter()
        inconclusive = Counter()
        samples = []
        per_family = {}
        violations = {}      # signature -> (family, case, failures)
        exhaustive = {}
        replays_rerun = 0
        regress_fail = []
        for r in reports:
            if r.get("regress"):
                replays_rerun = r["count"]
                regress_fail = r["failing"]
                for fid, n in r.get("excluded_known", {}).items():
                    excluded[fid] += n
                if r.get("harness_error"):
                    harness_errors.append("regress: " + r["harness_error"])
                continue
            evaluations += r["evaluations"]
            nontrivial.update(r["family"] + ":" + d for d in r["nontrivial_digests"])
            labels.update({"%s:%s" % (r["family"], k): v for k, v in r["labels"].items()})
            excluded.update(r["excluded_known"])
            inconclusive.update(r["inconclusive"])
            pf = per_family.setdefault(r["family"], {"evaluations": 0, "nontrivial": 0, "wall_s": 0.0})
            pf["evaluations"] += r["evaluations"]
            pf["nontrivial"] += len(r["nontrivial_digests"])
            pf["wall_s"] = max(pf["wall_s"], round(r["wall_s"], 1))
            if r["shard"] == 0:
                samples.extend({"family": r["family"], "case": s} for s in r["samples"][:3])
            if r["harness_error"]:
                harness_errors.append("%s shard %d:\n%s" % (r["family"], r["shard"], r["harness_error"]))
            if r.get("exhaustive"):
                e = exhaustive.setdefault(r["exhaustive"]["name"], 0)
                exhaustive[r["exhaustive"]["name"]] = e + r["exhaustive"]["cases_in_shard"]
            for v in r["violations"]:
                sig = (r["family"],) + tuple(v["signature"])
                size = len(core.canon_json(v["case"]))
                if sig not in violations or size < violations[sig][0]:
                    violations[sig] = (size, r["family"], v["case"], v["failures"])
        for pr in timed_out_violations:
            for v in pr["violations"]:
                sig = (pr["family"],) + tuple(v["signature"])
                size = len(core.canon_json(v["case"]))
                if sig not in violations or size < violations[sig][0]:
                    violations[sig] = (size, pr["family"], v["case"], v["failures"])
        for j, sig, case in crashes:
            key = (j["name"], "crash", "signal %d" % sig)
            violations[key] = (0, j["name"], case, [{"kind": "crash", "site": j["name"], "tags": {},
                                                   "detail": "interpreter killed by signal %d while running this case" % sig}])

        # ---------------------------------------------------------------- report
        for fid in sorted(k for k in excluded if not k.startswith("(")):
            print("KNOWN-FINDING: property=%s %s: %s (%d cases)" % (prop_id, fid, known.describe(fid), excluded[fid]))
        n_viol = 0
        for sig in sorted(violations):
            _, fam_name, case, failures = violations[sig]
            path = write_replay(prop_id, fam_name, case, failures)
            n_viol += 1
            print("VIOLATION property=%s replay=%s" % (prop_id, path))
            for fl in failures[:3]:
                print("   %s @ %s: %s" % (fl["kind"], fl["site"], fl["detail"][:400].replace("\n", "\n      ")))
        for path, fls in regress_fail:
            n_viol += 1
            print("VIOLATION property=%s replay=%s" % (prop_id, os.path.relpath(path, core.VERIF_DIR)))
            for fl in fls[:3]:
                print("   %s @ %s: %s" % (fl["kind"], fl["site"], fl["detail"][:400].replace("\n", "\n      ")))

        wall = time.time() - t0
        rule = getattr(mod, "RULE", "")
        cov = {
            "evaluations": evaluations,
            "distinct_nontrivial": len(nontrivial),
            "rule": rule,
            "samples": samples[:12],
            "labels": dict(sorted(labels.items())),
            "families": per_family,
            "excluded_known": dict(excluded),
            "inconclusive": dict(inconclusive),
            "replays_rerun": replays_rerun,
            "harness_errors": [h[:600] for h in harness_errors],
        }
        if exhaustive:
            cov["exhaustive_subspaces"] = exhaustive
        ev = {
            "property_id": prop_id, "tier": args.tier, "seed": seed, "level": "exploration",
            "coverage": cov,
            "assumptions": list(getattr(mod, "ASSUMPTIONS", [])),
            "wall_s": round(wall, 2),
            "violations": n_viol,
        }
        os.makedirs(os.path.join(core.VERIF_DIR, "evidence"), exist_ok=True)
        with open(os.path.join(core.VERIF_DIR, "evidence", prop_id + ".json"), "w") as f:
            json.dump(ev, f, indent=1, sort_keys=True, default=core._default)
        print("%s %s seed=%d: %d cases, %d distinct non-trivial, %d violation(s), %d known, %.0fs"
              % (prop_id, args.tier, seed, evaluations, len(nontrivial), n_viol,
                 sum(v for k, v in excluded.items() if not k.startswith("(")), wall))
        if labels and os.environ.get("VERIF_VERBOSE"):
            for k, v in sorted(labels.items()):
                print("   label %-50s %d" % (k, v))
        if n_viol:
            return 1
        if harness_errors:
            for h in harness_errors:
                print("HARNESS-ERROR:", h, file=sys.stderr)
            return 2
        if len(nontrivial) < 2:
            print("HARNESS-ERROR: fewer than 2 non-trivial cases were generated", file=sys.stderr)
            return 2
        return 0
    finally:
        shutil.rmtree(tmp, ignore_errors=True)


if __name__ == "__main__":
    sys.exit(main())
