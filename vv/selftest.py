"""Cross-checks of the machinery itself, run by setup_cmd (seconds)."""
import sys


def main():
    import hypothesis  # noqa
    import numpy as np
    from vv.ref import ot
    # the dual bound must reproduce a known optimum
    p = np.array([0.5, 0.5]); q = np.array([0.25, 0.75]); C = np.array([[0.0, 1.0], [1.0, 0.0]])
    lb, res = ot.dual_lower_bound(p, q, C)
    assert abs(lb - 0.25) < 1e-12, lb
    from vv import selftests
    selftests.run_all()
    print("selftest ok")
    return 0


if __name__ == "__main__":
    sys.exit(main())
