"""C09 - byte-pair encodings are lossless, reproducible and within the vocabulary budget."""
import itertools

from hypothesis import strategies as st

from vv.core import Family, Result, call, exc_kind, exc_detail

RULE = ("Hypothesis draws 1-6 training strings over 2-3 letter alphabets (so merges happen and strings collapse to one code) or a "
        "unicode alphabet (Latin-1, BMP, astral), lengths 0-12, max_vocab_size 1-12 or 10000, min_token_occurrence 1-3, max_char_code "
        "in {0, 97, ascii, common, bmp, unicode}, and transform strings (training strings, fresh strings, characters above "
        "max_char_code_, empty and one-character strings). Oracles: decode(encoding) == string (characters above max_char_code_ -> "
        "NUL) for fit_transform and transform; every code is a character code or a learned code; tokens_[i] is the concatenation of "
        "its pair; len(tokens_) <= max_vocab_size; transform(train) == fit_transform(train); 'tokens' and 'matrix' outputs are the "
        "strings / counts of the 'sequences' output; two fits are identical. Exhaustive part: for a fixed list of fitted models every "
        "string over {a,b} up to length 10 (quick) / {a,b,c} up to length 9 (thorough) is encoded and decoded. Non-trivial: the model "
        "learned a merge and the string contains a learned pair; distinct by SHA-1 of the case.")
ASSUMPTIONS = ["a corpus in which no adjacent pair occurs twice has nothing to learn: a clean model or a ValueError are both accepted there (recorded finding F11 covers the accidental failure modes)",
               "return_type is fixed per estimator (the 'matrix' column dictionary only exists after a 'matrix' fit)"]

_L = {}


def lib():
    if not _L:
        import numpy as np
        from vectorizers import BytePairEncodingVectorizer
        _L.update(np=np, BPE=BytePairEncodingVectorizer)
    return _L


ALPHAS = ["ab", "ab", "abc", "abc", "aé\xff", "a中\U0001F600"]


@st.composite
def cases(draw, tier):
    alpha = draw(st.sampled_from(ALPHAS))
    max_len = 24 if tier == "thorough" else 12
    s_ = st.text(alphabet=alpha, max_size=max_len)
    rep = st.builds(lambda u, k: (u * k)[:max_len], st.text(alphabet=alpha, min_size=1, max_size=3), st.integers(1, 8))
    train = draw(st.lists(st.one_of(s_, rep), min_size=1, max_size=6))
    extra = alpha + draw(st.sampled_from(["", "z", "Ж", "\U0001F601"]))
    test = draw(st.lists(st.one_of(st.text(alphabet=extra, max_size=max_len), st.sampled_from(train), st.just(""),
                                   st.text(alphabet=extra, min_size=1, max_size=1)), min_size=1, max_size=6))
    prior = draw(st.one_of(st.none(), st.lists(st.one_of(st.text(alphabet=extra, max_size=max_len), rep), min_size=1, max_size=4)))
    return {"train": train, "test": test, "prior": prior,
            "max_vocab_size": draw(st.one_of(st.integers(1, 12), st.just(10000))),
            "min_token_occurrence": draw(st.integers(1, 3)),
            "max_char_code": draw(st.sampled_from([0, 0, 97, "ascii", "common", "bmp", "unicode"]))}


def token_of(c, tokens, mcc):
    return chr(c) if c <= mcc else tokens[c - mcc - 1]


def learnable(train):
    from collections import Counter
    cnt = Counter()
    for s in train:
        for i in range(len(s) - 1):
            cnt[s[i:i + 2]] += 1
    return bool(cnt) and max(cnt.values()) >= 2


def verify_model(r, site, est, cap):
    tokens, code_list, mcc = list(est.tokens_), [tuple(int(x) for x in p) for p in est.code_list_], int(est.max_char_code_)
    if len(tokens) != len(code_list):
        r.fail("model-lengths", site, "len(tokens_)=%d len(code_list_)=%d" % (len(tokens), len(code_list)))
        return None
    if len(tokens) > cap:
        r.fail("vocab-budget", site, "%d tokens learned with max_vocab_size=%d" % (len(tokens), cap))
    for i, (a, b) in enumerate(code_list):
        for c in (a, b):
            if not (0 <= c <= mcc or mcc < c < mcc + 1 + i):
                r.fail("pair-code-range", site, "code_list_[%d]=%r refers to a code not defined before it" % (i, (a, b)))
                return None
        if tokens[i] != token_of(a, tokens, mcc) + token_of(b, tokens, mcc):
            r.fail("token-not-pair", site, "tokens_[%d]=%r but its pair decodes to %r" % (i, tokens[i], token_of(a, tokens, mcc) + token_of(b, tokens, mcc)))
    return tokens, code_list, mcc


def verify_encoding(r, site, s, enc, model):
    tokens, code_list, mcc = model
    enc = [int(c) for c in enc]
    hi = mcc + 1 + len(tokens)
    bad = [c for c in enc if not (0 <= c < hi)]
    if bad:
        r.fail("code-out-of-range", site, "string %r: codes %s outside [0, %d)" % (s, bad[:5], hi), length=min(len(s), 2))
        return False
    want = "".join(ch if ord(ch) <= mcc else "\0" for ch in s)
    got = "".join(token_of(c, tokens, mcc) for c in enc)
    if got != want:
        r.fail("round-trip", site, "string %r encodes to %s which decodes to %r" % (s, enc[:20], got), length=min(len(s), 2))
        return False
    return True


def contains_learned_pair(s, model):
    tokens = model[0]
    return any(t in s for t in tokens)


def check(case):
    L = lib()
    np = L["np"]
    r = Result()
    train, test = case["train"], case["test"]
    kw = dict(max_vocab_size=case["max_vocab_size"], min_token_occurrence=case["min_token_occurrence"],
              max_char_code=case["max_char_code"])
    site = "BytePairEncodingVectorizer"
    can_learn = learnable(train)
    r.label("mcc:%s" % case["max_char_code"], "cap:%s" % ("small" if case["max_vocab_size"] <= 12 else "large"))
    prior = case.get("prior")

    def make(return_type):
        """an estimator that (history) may already have been fitted and used on another corpus"""
        e_ = L["BPE"](return_type=return_type, **kw)
        if prior and learnable(prior):
            call(e_.fit_transform, list(prior))
            call(e_.transform, list(prior))
        return e_
    if prior and learnable(prior):
        r.label("refit-after-other-corpus")
    est = make("sequences")
    s, enc = call(est.fit_transform, list(train))
    if s == "exc":
        if not can_learn:
            r.label("unlearnable-corpus")
            if isinstance(enc, ValueError) and "repeated" in str(enc).lower():
                return r           # a clean rejection that names the problem
            r.fail(exc_kind(enc), site + ".fit_transform", exc_detail(enc), unlearnable=True)
            return r
        r.fail(exc_kind(enc), site + ".fit_transform", exc_detail(enc), unlearnable=False)
        return r
    model = verify_model(r, site + ".fit", est, case["max_vocab_size"])
    if model is None:
        return r
    if not can_learn:
        r.label("unlearnable-corpus")
        if model[0]:
            r.fail("learned-from-nothing", site + ".fit", "tokens %r learned although no pair occurs twice" % model[0][:4], unlearnable=True)
    if len(model[0]) == case["max_vocab_size"]:
        r.label("cap-reached")
    enc = [list(int(c) for c in e) for e in enc]
    if len(enc) != len(train):
        r.fail("count", site + ".fit_transform", "%d encodings for %d strings" % (len(enc), len(train)))
        return r
    for s_, e in zip(train, enc):
        verify_encoding(r, site + ".fit_transform", s_, e, model)
        if len(s_) <= 1:
            r.label("len<=1")
        if len(e) == 1 and len(s_) > 1:
            r.label("collapsed-to-one-code")
        if model[0] and contains_learned_pair(s_, model):
            r.nontrivial = True
    # transform re-encodes the training strings identically
    s, enc2 = call(est.transform, list(train))
    if s == "exc":
        r.fail(exc_kind(enc2), site + ".transform[train]", exc_detail(enc2), min_len=min(len(x) for x in train))
    else:
        enc2 = [list(int(c) for c in e) for e in enc2]
        if enc2 != enc:
            i = next(i for i in range(len(enc)) if i >= len(enc2) or enc2[i] != enc[i])
            r.fail("fit-vs-transform", site + ".transform[train]", "string %r: fit_transform gave %s, transform gives %s (tokens %r)"
                   % (train[i], enc[i][:16], (enc2[i] if i < len(enc2) else None), model[0][:6]), cap_reached=len(model[0]) == case["max_vocab_size"])
    # unseen strings
    s, enc3 = call(est.transform, list(test))
    seqs_test = None
    if s == "exc":
        r.fail(exc_kind(enc3), site + ".transform", exc_detail(enc3), min_len=min(len(x) for x in test))
    else:
        seqs_test = [list(int(c) for c in e) for e in enc3]
        if len(seqs_test) != len(test):
            r.fail("count", site + ".transform", "%d encodings for %d strings" % (len(seqs_test), len(test)))
        else:
            for s_, e in zip(test, seqs_test):
                verify_encoding(r, site + ".transform", s_, e, model)
                if any(ord(ch) > model[2] for ch in s_):
                    r.label("char-above-max_char_code_")
    # reproducibility
    twin = L["BPE"](return_type="sequences", **kw)
    s, enc4 = call(twin.fit_transform, list(train))
    if s == "ok":
        if list(twin.tokens_) != model[0] or [tuple(int(x) for x in p) for p in twin.code_list_] != model[1] \
                or [list(int(c) for c in e) for e in enc4] != enc or int(twin.max_char_code_) != model[2]:
            r.fail("not-reproducible", site + ".fit", "two fits on the same data differ")
    else:
        r.fail("not-reproducible", site + ".fit", "second fit raised %r" % enc4)
    # tokens / matrix views
    tok = make("tokens")
    s, t1 = call(tok.fit_transform, list(train))
    if s == "exc":
        r.fail(exc_kind(t1), site + "[tokens].fit_transform", exc_detail(t1))
    else:
        want = [[token_of(c, model[0], model[2]) for c in e] for e in enc]
        if [list(x) for x in t1] != want:
            r.fail("tokens-view", site + "[tokens].fit_transform", "tokens output is not the strings of the sequences output")
        if seqs_test is not None:
            s, t2 = call(tok.transform, list(test))
            if s == "exc":
                r.fail(exc_kind(t2), site + "[tokens].transform", exc_detail(t2))
            elif [list(x) for x in t2] != [[token_of(c, model[0], model[2]) for c in e] for e in seqs_test]:
                r.fail("tokens-view", site + "[tokens].transform", "tokens output is not the strings of the sequences output")
    mat = make("matrix")
    s, m1 = call(mat.fit_transform, list(train))
    if s == "exc":
        r.fail(exc_kind(m1), site + "[matrix].fit_transform", exc_detail(m1), all_empty=not any(train))
    else:
        col = {int(k): int(v) for k, v in mat.column_label_dictionary_.items()}
        width = len(col)

        def counts(seqs):
            A = np.zeros((len(seqs), width))
            for i, e in enumerate(seqs):
                for c in e:
                    if c in col:
                        A[i, col[c]] += 1
            return A
        A1 = np.asarray(m1.todense())
        if A1.shape != (len(train), width) or not np.array_equal(A1, counts(enc)):
            r.fail("matrix-view", site + "[matrix].fit_transform", "matrix output (shape %s) is not the code counts of the sequences output (%d x %d)" % (A1.shape, len(train), width))
        if seqs_test is not None:
            s, m2 = call(mat.transform, list(test))
            if s == "exc":
                r.fail(exc_kind(m2), site + "[matrix].transform", exc_detail(m2))
            else:
                A2 = np.asarray(m2.todense())
                if A2.shape != (len(test), width):
                    r.fail("matrix-shape", site + "[matrix].transform", "shape %s, expected (%d, %d)" % (A2.shape, len(test), width))
                elif not np.array_equal(A2, counts(seqs_test)):
                    r.fail("matrix-view", site + "[matrix].transform", "matrix output is not the code counts of the sequences output")
    return r


# -------------------------------------------------------------------------------------------- exhaustive
MODELS = [
    (["abababab", "aaaa", "abcabc"], 1), (["abababab", "aaaa", "abcabc"], 2), (["abababab", "aaaa", "abcabc"], 3),
    (["abababab", "aaaa", "abcabc"], 10000), (["aaaaaaaa"], 10000), (["aaaaaaaa"], 2), (["abab", "baba"], 10000),
    (["abba", "abba", "baab"], 4), (["aabbaabb", "bbaabbaa"], 10000), (["aabbaabb", "bbaabbaa"], 3),
    (["abcabcabc", "cbacbacba"], 10000), (["abcabcabc", "cbacbacba"], 5), (["ab", "ab"], 10000), (["aab", "aab", "b"], 10000),
    (["ababababababab", "b"], 3), (["bbbbabbbbabbbb", ""], 10000), (["", "aa", "aa"], 10000), (["abcab", "cabca", "bcabc"], 6),
    (["aaaabaaaab", "baaaabaaaa"], 10000), (["ccccab", "abcccc", "ccabcc"], 7),
]


def exhaustive_cases(tier):
    alpha, maxlen = ("abc", 9) if tier == "thorough" else ("ab", 10)
    for mi in range(len(MODELS)):
        for length in range(0, maxlen + 1):
            yield {"model": mi, "alphabet": alpha, "length": length}


def check_exhaustive(case):
    L = lib()
    r = Result()
    train, cap = MODELS[case["model"]]
    site = "BytePairEncodingVectorizer"
    est = L["BPE"](return_type="sequences", max_vocab_size=cap)
    s, enc = call(est.fit_transform, list(train))
    if s == "exc":
        r.fail(exc_kind(enc), site + ".fit_transform", exc_detail(enc), unlearnable=not learnable(train))
        return r
    model = verify_model(r, site + ".fit", est, cap)
    if model is None:
        return r
    strs = ["".join(t) for t in itertools.product(case["alphabet"], repeat=case["length"])]
    s, out = call(est.transform, strs)
    if s == "exc":
        r.fail(exc_kind(out), site + ".transform", exc_detail(out), min_len=case["length"])
        return r
    if len(out) != len(strs):
        r.fail("count", site + ".transform", "%d encodings for %d strings" % (len(out), len(strs)))
        return r
    for s_, e in zip(strs, out):
        if not verify_encoding(r, site + ".transform", s_, e, model):
            break
    r.nontrivial = case["length"] >= 2
    r.label("length:%d" % case["length"])
    return r


FAMILIES = {
    "generated": Family(cases, check, {"quick": 1800, "thorough": 16000}, {"quick": 6, "thorough": 16}),
    "exhaustive": Family(check=check_exhaustive, enumerate_cases=exhaustive_cases,
                         exhaustive_name="all_strings_over_small_alphabet_up_to_length_bound_x_20_models",
                         examples={"quick": 0, "thorough": 0}, shards={"quick": 6, "thorough": 16}),
}
