"""C14 - masking keeps positions; nullifying the mask removes its contribution."""
from hypothesis import strategies as st

from vv import cooc_common as cc
from vv.core import Family, Result, call, exc_kind, exc_detail
from vv.gen import corpora, cooc as gc
from vv.props import c03, c15, c06
from vv.ref import vocab

RULE = ("C03-style corpora and window specifications with pruning drawn so that at least one token is removed and one kept (excluded "
        "set, min/max occurrences, max_unique_tokens), mask_string in {None, '__M__'} and nullify_mask in {False, True}, for the token, "
        "timed, multiset and n-gram co-occurrence vectorizers, the tree vectorizer and NgramVectorizer. Oracle: kept vocabulary from "
        "vv.ref.vocab; expected sequences built in Python (deletion without a mask, in-place replacement by index len(kept) with one, "
        "the fitted dictionary holding exactly one extra entry mask -> len(kept)); expected matrix = the C03 reference on those "
        "sequences; nullified: masked contexts get weight zero before any normalisation and masked targets radius 0, so the mask row "
        "and every *_mask column are zero and every other cell equals the reference. NgramVectorizer: the counted n-grams are those of "
        "the in-place masked sequences at fit and at transform. Non-trivial: a removed token lies strictly between two kept tokens "
        "inside one sequence; distinct by SHA-1 of the case.")
ASSUMPTIONS = ["mask_string is a string that does not occur as a token of the corpus",
               "NgramVectorizer's nullify_mask option is outside the claim"]


@st.composite
def masked_case(draw, kind, tier):
    c = draw(c03.base_case(kind, tier))
    fd = cc.flat_docs(kind, c["docs"])
    toks = sorted({t for d in fd for t in d}, key=repr)
    how = draw(st.sampled_from(["excluded", "excluded", "min_occurrences", "max_occurrences", "max_unique_tokens"]))
    from collections import Counter
    cnt = Counter(t for d in fd for t in d)
    if how == "excluded" or len(set(cnt.values())) < 2:
        k = draw(st.integers(1, max(1, len(toks) - 1)))
        c["prune"] = {"excluded_tokens": draw(st.lists(st.sampled_from(toks), min_size=1, max_size=k, unique=True))}
    elif how == "min_occurrences":
        c["prune"] = {"min_occurrences": sorted(set(cnt.values()))[1]}
    elif how == "max_occurrences":
        c["prune"] = {"max_occurrences": sorted(set(cnt.values()))[-2]}
    else:
        c["prune"] = {"max_unique_tokens": draw(st.integers(1, max(1, len(toks) - 1)))}
    c["mask"] = draw(st.sampled_from([None, "__M__", "__M__"]))
    c["nullify"] = draw(st.booleans()) if c["mask"] else False
    return c


def between(seqs_tokens, kept):
    for d in seqs_tokens:
        idx = [i for i, t in enumerate(d) if t in kept]
        if idx and any(t not in kept for t in d[idx[0]:idx[-1] + 1]):
            return True
    return False


def make_check(kind):
    def check(case):
        L = cc.lib()
        np = L["np"]
        r = Result()
        mask, nullify = case["mask"], case["nullify"]
        r.label("mask:%s" % ("nullify" if nullify else mask is not None), "prune:" + list(case["prune"])[0])
        r.label(*[l for l in gc.spec_labels(case["specs"], case["normalize_windows"]) if l.startswith(("kernel:", "normalize", "kernel-"))])
        e0 = cc.expectation(kind, case)
        if not e0.ambiguous and not e0.kept:
            # the property quantifies over prunings that keep at least one token (a vocabulary holding only the mask is degenerate)
            r.label("all-removed")
            return r
        out = c03.judge(kind, case, r)
        if out is None:
            return r
        est, e, A = out
        site = type(est).__name__
        fd = cc.flat_docs(kind, case["docs"])
        removed = {t for d in fd for t in d} - e.kept
        if not removed:
            r.label("nothing-removed")
        r.nontrivial = bool(removed) and bool(e.kept) and between(fd, e.kept)
        tokd = cc.norm_dict(est.token_label_dictionary_)
        if mask is not None:
            if tokd.get(mask) != len(e.kept) or len(tokd) != len(e.kept) + 1:
                r.fail("mask-entry", site + ".fit", "dictionary %r: the mask must be the single extra entry with index %d" % (tokd, len(e.kept)))
        elif len(tokd) != len(e.kept):
            r.fail("mask-entry", site + ".fit", "dictionary %r has entries beyond the kept vocabulary" % tokd)
        if nullify and not r.failures:
            m = e.mask_index_entry
            if kind != "ngram" and A[m, :].any():
                r.fail("mask-row-nonzero", site + ".fit_transform", "the nullified mask row is not zero")
            cols = [m + b * e.n_cols for b in range(len(e.blocks))]
            if A[:, cols].any():
                r.fail("mask-column-nonzero", site + ".fit_transform", "a column referring to the nullified mask is not zero")
        # transform of the training data must apply the same masking
        if not r.failures:
            s, T = call(est.transform, cc.lib_input(kind, case))
            if s == "exc":
                r.fail(exc_kind(T), site + ".transform", exc_detail(T))
            else:
                At = np.asarray(T.todense(), dtype=np.float64)
                if At.shape != A.shape or not np.allclose(At, A, rtol=1e-6, atol=1e-7):
                    r.fail("transform-masking", site + ".transform", "transform(train) differs from fit_transform(train) under masking")
        return r
    return check


# ------------------------------------------------------------------------------------------------ NgramVectorizer
@st.composite
def ngramvec_cases(draw, tier):
    c = draw(c06.ngram_cases(tier))
    c["fixed"] = None
    toks = sorted({t for d in c["docs"] for t in d}, key=repr)
    k = draw(st.integers(1, max(1, len(toks) - 1)))
    c["prune"] = {"excluded_tokens": draw(st.lists(st.sampled_from(toks), min_size=1, max_size=k, unique=True))}
    c["mask"] = draw(st.sampled_from([None, "__M__", "__M__"]))
    return c


def check_ngramvec(case):
    r = c06.check_ngram(case)
    kept = {t for d in case["docs"] for t in d} - set(case["prune"]["excluded_tokens"])
    r.nontrivial = bool(kept) and between(case["docs"], kept)
    r.labels = [l for l in r.labels if not l.startswith(("fixed", "pruned"))]
    return r


# ------------------------------------------------------------------------------------------------ tree
@st.composite
def tree_cases(draw, tier):
    c = draw(c15.cases(tier))
    labs = sorted({l for t in c["forest"] for l in t["labels"]})
    if len(labs) >= 2:
        c["prune"] = {"ignored_tokens": draw(st.lists(st.sampled_from(labs), min_size=1, max_size=len(labs) - 1, unique=True))}
        c["mask"] = draw(st.sampled_from([None, "__M__", "__M__"]))
        c["nullify"] = draw(st.booleans()) if c["mask"] else False
    return c


def check_tree(case):
    r = c15.check(case)
    if not case["prune"]:
        r.nontrivial = False
    return r


def fam(kind, quick, thorough):
    return Family(lambda tier, kind=kind: masked_case(kind, tier), make_check(kind), {"quick": quick, "thorough": thorough},
                  {"quick": 3, "thorough": 16})


FAMILIES = {
    "token": fam("token", 210, 3000),
    "timed": fam("timed", 150, 2000),
    "multi": fam("multi", 150, 2000),
    "ngram": fam("ngram", 150, 2000),
    "ngramvec": Family(ngramvec_cases, check_ngramvec, {"quick": 600, "thorough": 6000}, {"quick": 2, "thorough": 16}),
    "tree": Family(tree_cases, check_tree, {"quick": 400, "thorough": 4000}, {"quick": 2, "thorough": 16}),
}
