"""C02 - fit_transform(X) equals fit(X).transform(X), and fit returns the estimator."""
import copy

from hypothesis import strategies as st

from vv import fam as F
from vv.core import Family, Result, call, exc_kind, exc_detail

RULE = ("For every estimator family (Ngram, Skipgram, LZ, BPE x 3 return types, Histogram, KDE, Distribution, SlidingWindow, "
        "SequentialDifference, InformationWeight, RowDenoising, CountFeatureCompression, EdgeList, Tree, the four co-occurrence "
        "vectorizers with EM / masks / threads, WassersteinVectorizer x {LOT_exact spmatrix/lil/generator, LOT_sinkhorn, Heuristic}, "
        "Sinkhorn, ApproximateWasserstein) Hypothesis draws parameters that select code paths (metric, input_method, small memory_size, "
        "kernels, windows, masks, n_iter, return_type, caps that are reached, algorithm, random_state) and a training input. Two "
        "estimators are built from deep-copied parameters: r1 = A.fit_transform(X); B.fit(X) must return B itself; r2 = B.transform(X). "
        "r1 and r2 must be equal: exactly for count / encoding outputs, rtol 1e-5 for float32 co-occurrence values, rtol 1e-3 / atol 1e-6 "
        "for SVD-compressed outputs and only when n_components >= the rank of the uncompressed representation. Non-trivial: at least one "
        "non-default path-selecting parameter or an empty item; distinct by SHA-1 of the case.")
ASSUMPTIONS = ["SVD-compressed outputs: the smaller-than-rank regime is generated and labelled but not asserted (the property states the rank bound)",
               "integer random_state for every randomised estimator"]


def rows_equal(np, a, b, exact, rtol, atol, equal_nan=False):
    if len(a) != len(b):
        return "row counts %d vs %d" % (len(a), len(b))
    for i, (x, y) in enumerate(zip(a, b)):
        if isinstance(x, list):
            if x != y:
                return "item %d: %r vs %r" % (i, x[:12], y[:12])
            continue
        x, y = np.asarray(x), np.asarray(y)
        if x.shape != y.shape:
            return "item %d: shapes %s vs %s" % (i, x.shape, y.shape)
        ok = np.array_equal(x, y, equal_nan=equal_nan) if exact else np.allclose(x, y, rtol=rtol, atol=atol, equal_nan=equal_nan)
        if not ok:
            j = int(np.argmax(np.abs(np.nan_to_num(x - y)))) if x.size else 0
            return "item %d: max difference at flat index %d: %r vs %r" % (i, j, x.ravel()[j] if x.size else None, y.ravel()[j] if y.size else None)
    return None


def make_check(name):
    def check(spec):
        fam = F.get(name)
        np = F.lib()["np"]
        r = Result()
        r.label("family:" + name)
        site = name
        s, A = call(fam.make, copy.deepcopy(spec))
        s2, B = call(fam.make, copy.deepcopy(spec))
        if s == "exc" or s2 == "exc":
            e = A if s == "exc" else B
            r.fail(exc_kind(e), site + ".__init__", exc_detail(e))
            return r
        if spec.get("pre_use"):
            # history: B has already been fitted on, and used with, other data (the transform set) before the fit under test
            r.label("previously-used-estimator")
            other = dict(spec, train=spec["test"])
            if fam.n_items(spec["test"]) >= 1:
                sp_, _o = call(F.fit_call, fam, B, other, "fit")
                if sp_ == "ok":
                    call(F.transform_call, fam, B, other, spec["test"])
                    call(F.transform_call, fam, B, other, spec["train"])
        s, r1 = call(F.fit_call, fam, A, spec, "fit_transform")
        s2, ret = call(F.fit_call, fam, B, spec, "fit")
        if s == "exc" and s2 == "exc" and type(r1) is type(ret) and isinstance(r1, (ValueError, NotImplementedError)):
            r.label("both-raise:" + type(r1).__name__)       # the documented rejection of this input (both paths agree)
            return r
        if (s == "exc" or s2 == "exc") and name.endswith("_cooc") and name != "tree_cooc":
            from vv import cooc_common as cc
            if cc.degenerate(name[:-5], spec["case"]):
                r.label("degenerate-corpus")
                return r
        if s == "exc" or s2 == "exc":
            e = r1 if s == "exc" else ret
            r.fail(exc_kind(e), site + (".fit_transform" if s == "exc" else ".fit"), exc_detail(e), one_sided=True)
            return r
        if ret is not B:
            r.fail("fit-return", site + ".fit", "fit returned %r instead of the estimator" % (type(ret).__name__,))
        s, r2 = call(F.transform_call, fam, B, spec, spec["train"])
        if s == "exc":
            r.fail(exc_kind(r2), site + ".transform", exc_detail(r2))
            return r
        c1, c2 = fam.canon(r1, spec), fam.canon(r2, spec)
        assert_it = True
        if fam.svd:
            # the property states equality when the requested dimension is at least the rank of the uncompressed representation
            k = fam.width(B)
            full = getattr(B, "components_", None)
            n_items = fam.n_items(spec["train"])
            raw_dim = full.shape[1] if full is not None and hasattr(full, "shape") and len(full.shape) == 2 else None
            if raw_dim is None or k is None or k < min(n_items, raw_dim):
                assert_it = False
                r.label("below-rank-not-asserted")
        if assert_it:
            # NaN outputs (finding F27 of C17: degenerate information weights) are compared position-wise as equal here
            msg = rows_equal(np, c1, c2, fam.exact, fam.rtol, fam.atol, equal_nan=True)
            if msg:
                r.fail("fit_transform-vs-transform", site, msg + " | params %r" % (spec.get("params") or spec.get("extra") or {}), **tags(name, spec))
        r.nontrivial = True
        for k, v in (spec.get("params") or {}).items():
            r.label("%s=%s" % (k, v if isinstance(v, (str, bool, int)) or v is None else type(v).__name__))
        return r
    return check


def tags(name, spec):
    p = spec.get("params") or {}
    t = {}
    if name == "cfc":
        t["no_compression"] = p.get("n_components", 0) >= len(spec["train"][0])
    if name.startswith("wass") or name in ("sinkhorn", "approx"):
        t["metric"] = p.get("metric")
        t["norm_power"] = p.get("normalization_power", p.get("heuristic_normalization_power", 1.0))
    return t


def with_pre_use(fam):
    @st.composite
    def s(draw, tier):
        spec = draw(fam.strategy(tier))
        spec["pre_use"] = draw(st.booleans())
        return spec
    return s


def family_entry(name, quick, thorough, shards=(2, 8)):
    fam = F.get(name)
    return Family(with_pre_use(fam), make_check(name), {"quick": quick, "thorough": thorough},
                  {"quick": shards[0], "thorough": shards[1]})


FAMILIES = {}
for _n, _q, _t in [("ngram", 300, 3000), ("skipgram", 120, 1500), ("lz", 150, 2000), ("bpe_sequences", 200, 2000), ("bpe_tokens", 100, 1000),
                   ("bpe_matrix", 150, 1500), ("hist", 200, 2000), ("kde", 150, 1500), ("distvec", 40, 300), ("slidewin", 60, 600),
                   ("seqdiff", 30, 300), ("iw", 200, 2000), ("rowdenoise", 150, 1500), ("cfc", 200, 2000), ("edgelist", 200, 2000),
                   ("tree_cooc", 150, 1500), ("token_cooc", 100, 1200), ("timed_cooc", 80, 1000), ("multi_cooc", 80, 1000),
                   ("ngram_cooc", 80, 1000), ("wass_LOT_exact_spmatrix", 60, 600), ("wass_LOT_exact_lil", 50, 500),
                   ("wass_LOT_exact_generator", 40, 400), ("wass_LOT_sinkhorn_spmatrix", 40, 400),
                   ("wass_HeuristicLinearAlgebra_spmatrix", 80, 800), ("sinkhorn", 40, 400), ("approx", 80, 800)]:
    FAMILIES[_n] = family_entry(_n, _q, _t, shards=(1, 6))
