"""C16 - LZ compression rows count each string's own parse phrases."""
from hypothesis import strategies as st

from vv.core import Family, Result, call, exc_kind, exc_detail

RULE = ("Hypothesis draws 1-8 training strings and 1-6 transform strings (empty, single character, highly repetitive, 2-3 letter "
        "alphabets, unicode incl. astral code points), max_dict_size in {2, 3, 5, 65536}, max_columns in {None, 2, 7, 64, 65536}, an "
        "optional base_dictionary (only without hashing) and an integer random_state. Oracle: a pure-Python incremental Lempel-Ziv "
        "parse per string (growing dictionary started from the base dictionary, capped at max_dict_size); each row equals that "
        "string's phrase counts through column_label_dictionary_ (fit_transform and transform; phrases absent from the fitted "
        "dictionary contribute nothing at transform); row total = len(s) + base counts when the cap was not reached; with hashing: "
        "width and indices < max_columns, row totals unchanged, and when the fitted hash is injective on all substrings of the "
        "strings involved each row is the unhashed row relabelled. Non-trivial: some string reuses a phrase (count >= 2) and shares a "
        "phrase with another string; distinct by SHA-1 of the case.")
ASSUMPTIONS = ["the parse is the incremental one the class documents: the phrase under construction is counted if known, otherwise added (count 1) and restarted",
               "base_dictionary is only combined with max_columns=None (with hashing the dictionary is keyed by hash values the user cannot know)"]

_L = {}


def lib():
    if not _L:
        import numpy as np
        from vectorizers import LZCompressionVectorizer
        _L.update(np=np, LZ=LZCompressionVectorizer)
    return _L


ALPHAS = ["ab", "abc", "a", "aé", "a\U0001F600b", "xyz中"]


@st.composite
def strings(draw, alpha, max_len):
    kind = draw(st.sampled_from(["random", "random", "repeat", "short"]))
    if kind == "short":
        return draw(st.text(alphabet=alpha, max_size=1))
    if kind == "repeat":
        unit = draw(st.text(alphabet=alpha, min_size=1, max_size=3))
        return (unit * draw(st.integers(1, 8)))[:max_len]
    return draw(st.text(alphabet=alpha, max_size=max_len))


@st.composite
def cases(draw, tier):
    alpha = draw(st.sampled_from(ALPHAS))
    max_len = 40 if tier == "thorough" else 20
    train = draw(st.lists(strings(alpha, max_len), min_size=1, max_size=8))
    alpha2 = alpha + draw(st.sampled_from(["", "", "z", "qé"]))
    test = draw(st.lists(strings(alpha2, max_len), min_size=1, max_size=6))
    max_columns = draw(st.sampled_from([None, None, 2, 7, 64, 65536]))
    base = None
    if max_columns is None and draw(st.booleans()):
        keys = draw(st.lists(st.text(alphabet=alpha, min_size=0, max_size=2), min_size=1, max_size=4, unique=True))
        base = {k: draw(st.integers(0, 3)) for k in keys}
    prior = None
    if draw(st.booleans()):
        # history: the same estimator object was fitted before, on other strings and possibly with another max_columns
        prior = {"strings": draw(st.lists(strings(alpha2, max_len), min_size=1, max_size=4)),
                 "max_columns": draw(st.sampled_from([None, 2, 7, 64, 4096, 65536])) if max_columns is not None else None}
    return {"train": train, "test": test, "prior": prior, "max_dict_size": draw(st.sampled_from([65536, 65536, 5, 3, 2])),
            "max_columns": max_columns, "base": base, "random_state": draw(st.integers(0, 1000))}


def lz_parse(s, base, max_size, key=lambda x: x):
    d = dict(base or {})
    size = len(d)
    start = 0
    capped = False
    for end in range(len(s)):
        g = key(s[start:end])
        if g in d:
            d[g] += 1
        elif size >= max_size:
            start = end
            capped = True
        else:
            d[g] = 1
            size += 1
            start = end
    return d, capped


def substrings(strs):
    out = {""}
    for s in strs:
        for i in range(len(s)):
            for j in range(i + 1, len(s) + 1):
                out.add(s[i:j])
    return out


def check(case):
    L = lib()
    np = L["np"]
    r = Result()
    train, test = case["train"], case["test"]
    mc, base, mds = case["max_columns"], case["base"], case["max_dict_size"]
    site = "LZCompressionVectorizer[%s]" % ("hashed" if mc is not None else "plain")
    r.label("max_columns:%s" % mc, "max_dict_size:%d" % mds, "base:%s" % (base is not None))
    est = L["LZ"](max_dict_size=mds, max_columns=mc, base_dictionary=dict(base) if base is not None else None,
                  random_state=case["random_state"])
    if case.get("prior"):
        r.label("previously-used-estimator")
        if mc is not None and case["prior"]["max_columns"] is not None:
            est.set_params(max_columns=case["prior"]["max_columns"])
        sp_, _o = call(est.fit_transform, list(case["prior"]["strings"]))
        if sp_ == "ok":
            call(est.transform, list(test))
        est.set_params(max_columns=mc)
    s, M = call(est.fit_transform, list(train))
    if s == "exc":
        r.fail(exc_kind(M), site + ".fit_transform", exc_detail(M))
        return r
    s, T = call(est.transform, list(test))
    if s == "exc":
        r.fail(exc_kind(T), site + ".transform", exc_detail(T))
        T = None
    col = {k: int(v) for k, v in est.column_label_dictionary_.items()}
    width = len(col)
    if sorted(col.values()) != list(range(width)):
        r.fail("column-dictionary", site + ".fit_transform", "column indices are not 0..n-1: %s" % sorted(col.values())[:10])
        return r
    base_total = sum((base or {}).values())
    if mc is not None:
        h = est.hash_function_
        key = lambda x: int(h(x))
        if width > mc:
            r.fail("too-many-columns", site + ".fit_transform", "%d columns with max_columns=%d" % (width, mc))
        subs = substrings(train + test)
        hv = {}
        for sub in subs:
            hv.setdefault(key(sub), set()).add(sub)
        injective = all(len(v) == 1 for v in hv.values())
        r.label("hash-injective:%s" % injective)
    else:
        key = lambda x: x
        injective = True
    reuse, shared = False, False
    phrase_sets = []
    for name, strs, mat in (("fit_transform", train, M), ("transform", test, T)):
        if mat is None:
            continue
        A = np.asarray(mat.todense())
        if A.shape != (len(strs), width):
            r.fail("shape", site + "." + name, "shape %s, expected (%d, %d)" % (A.shape, len(strs), width))
            continue
        for i, s_ in enumerate(strs):
            parse, capped = lz_parse(s_, base, mds, key)           # with hashing: the parse is defined on hashed phrases
            if capped:
                r.label("cap-reached")
            want = np.zeros(width)
            for g, c in parse.items():
                if g in col:
                    want[col[g]] += c
                elif name == "fit_transform":
                    r.fail("phrase-without-column", site + "." + name, "phrase %r of string %r has no column" % (g, s_))
            if not np.array_equal(A[i], want):
                r.fail("row-counts", site + "." + name, "string %r: row %s, parse gives %s (parse %r)"
                       % (s_, A[i].tolist()[:12], want.tolist()[:12], dict(list(parse.items())[:8])))
                continue
            if name == "fit_transform" and not capped and float(A[i].sum()) != float(len(s_) + base_total):
                r.fail("row-total", site + "." + name, "string %r: row total %r, expected len + base counts = %d"
                       % (s_, float(A[i].sum()), len(s_) + base_total))
            if mc is not None and injective:
                # relabelled unhashed row
                plain, _ = lz_parse(s_, None, mds)
                want2 = np.zeros(width)
                for g, c in plain.items():
                    if key(g) in col:
                        want2[col[key(g)]] += c
                if not np.array_equal(A[i], want2):
                    r.fail("hash-relabel", site + "." + name, "string %r: hashed row is not the unhashed row relabelled" % s_)
            if any(c >= 2 for g, c in parse.items() if g != ""):
                reuse = True
            phrase_sets.append({g for g in parse if g != ""})
        # each row depends on its own string only: singleton transform
    for i in range(len(phrase_sets)):
        for j in range(i + 1, len(phrase_sets)):
            if phrase_sets[i] & phrase_sets[j]:
                shared = True
    r.nontrivial = reuse and shared
    # same phrase -> same column in both calls: transform of the training strings reproduces the training matrix
    s, M2 = call(est.transform, list(train))
    if s == "exc":
        r.fail(exc_kind(M2), site + ".transform[train]", exc_detail(M2))
    elif M2.shape != M.shape or (M2 != M).nnz != 0:
        r.fail("fit-vs-transform", site + ".transform[train]", "transform(train) (shape %s) differs from fit_transform(train) (shape %s)" % (M2.shape, M.shape))
    return r


FAMILIES = {
    "lz": Family(cases, check, {"quick": 1200, "thorough": 12000}, {"quick": 6, "thorough": 16}),
}
