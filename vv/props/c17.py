"""C17 - information weights are KL divergences; transform is a fixed column scaling."""
import math

from hypothesis import strategies as st

from vv.core import Family, Result, call, exc_kind, exc_detail

RULE = ("Hypothesis draws a non-negative matrix (1-12 x 1-10; integer counts or dyadic floats; empty rows/columns frequent), a storage "
        "(CSR, CSC, COO with duplicate entries, LIL, CSC with reversed index order, explicit stored zeros; ndarray for the transformer), "
        "prior_strength in [1e-4, 10], weight_power, optional supervised labels, a row and a column permutation and a second matrix for "
        "linearity. Oracles: float64 KL(posterior || row-mass baseline) from the definition (1e-9), finite and >= -1e-12, equal across "
        "storages, row-permutation invariant, column-permutation equivariant; transform == X @ diag(weights), linear, support-preserving, "
        "weights finite and >= 0. Non-trivial: >= 2 columns with different normalised profiles and a storage other than canonical CSR; "
        "distinct by SHA-1 of the case.")
ASSUMPTIONS = ["matrices in canonical or listed non-canonical storages; CSC/CSR inputs holding duplicate (unsummed) entries are outside the domain",
               "approximate-prior and supervised variants are only held to the structural claims (scaling, linearity, support)"]

_L = {}


def lib():
    if not _L:
        import numpy as np
        import scipy.sparse as sp
        from vectorizers.transformers import InformationWeightTransformer
        from vectorizers.transformers.info_weight import information_weight
        _L.update(np=np, sp=sp, T=InformationWeightTransformer, iw=information_weight)
    return _L


STORAGES = ["csr", "csc", "coo_dup", "lil", "csc_unsorted", "csr_zeros", "csc_zeros"]
cell = st.one_of(st.just(0), st.just(0), st.integers(0, 6), st.sampled_from([0.5, 1.5, 0.25, 12, 100]))


@st.composite
def matrix(draw, n, m):
    rows = draw(st.lists(st.lists(cell, min_size=m, max_size=m), min_size=n, max_size=n))
    if not any(v for r in rows for v in r):
        rows[0][0] = 1
    return rows


@st.composite
def fn_cases(draw, tier):
    big = tier == "thorough"
    n, m = draw(st.integers(1, 16 if big else 12)), draw(st.integers(1, 12 if big else 10))
    return {
        "X": draw(matrix(n, m)),
        "storage": draw(st.sampled_from(STORAGES)),
        "prior_strength": draw(st.sampled_from([1e-4, 1e-2, 0.1, 1.0, 10.0])),
        "row_perm": draw(st.permutations(list(range(n)))),
        "col_perm": draw(st.permutations(list(range(m)))),
    }


def store(L, D, storage):
    np, sp = L["np"], L["sp"]
    D = np.asarray(D, dtype=np.float64)
    if storage == "dense":
        return D.copy()
    if storage == "csr":
        return sp.csr_matrix(D)
    if storage == "csc":
        return sp.csc_matrix(D)
    if storage == "lil":
        return sp.lil_matrix(D)
    if storage == "coo_dup":
        r, c = np.nonzero(D)
        v = D[r, c]
        # every entry split into two stored duplicates (dyadic halves: the sum is exact)
        return sp.coo_matrix((np.concatenate([v / 2, v / 2]), (np.concatenate([r, r]), np.concatenate([c, c]))), shape=D.shape)
    if storage == "csc_unsorted":
        A = sp.csc_matrix(D)
        for j in range(A.shape[1]):
            s, e = A.indptr[j], A.indptr[j + 1]
            A.indices[s:e] = A.indices[s:e][::-1].copy()
            A.data[s:e] = A.data[s:e][::-1].copy()
        A.has_sorted_indices = False
        return A
    if storage in ("csr_zeros", "csc_zeros"):
        # store every third structural zero explicitly
        mask = (D != 0)
        idx = np.arange(D.size).reshape(D.shape)
        mask |= (idx % 3 == 1)
        r, c = np.nonzero(mask)
        A = sp.coo_matrix((D[r, c], (r, c)), shape=D.shape)
        A = A.tocsr() if storage == "csr_zeros" else A.tocsc()
        return A
    raise ValueError(storage)


def ref_kl(np, D, ps):
    D = np.asarray(D, dtype=np.float64)
    base = D.sum(axis=1)
    b = base / base.sum()
    out = np.zeros(D.shape[1])
    for j in range(D.shape[1]):
        cnt = D[:, j]
        post = (cnt + ps * b) / (cnt.sum() + ps)
        ok = post > 0
        out[j] = float((post[ok] * np.log(post[ok] / b[ok])).sum())
    return out


def profiles_differ(np, D):
    D = np.asarray(D, dtype=np.float64)
    cols = [D[:, j] / D[:, j].sum() for j in range(D.shape[1]) if D[:, j].sum() > 0]
    return any(not np.allclose(cols[0], c) for c in cols[1:])


def check_fn(case):
    L = lib()
    np = L["np"]
    r = Result()
    D = np.asarray(case["X"], dtype=np.float64)
    ps = case["prior_strength"]
    site = "information_weight"
    r.label("storage:" + case["storage"], "ps:%g" % ps)
    if (D.sum(axis=1) == 0).any():
        r.label("empty-row")
    if (D.sum(axis=0) == 0).any():
        r.label("empty-column")
    want = ref_kl(np, D, ps)
    r.nontrivial = profiles_differ(np, D) and case["storage"] != "csr"
    results = {}
    for storage in dict.fromkeys([case["storage"], "csr"]):
        s, w = call(L["iw"], store(L, D, storage), ps, False)
        if s == "exc":
            r.fail(exc_kind(w), site + "[%s]" % storage, exc_detail(w))
            continue
        w = np.asarray(w, dtype=np.float64)
        results[storage] = w
        if w.shape != (D.shape[1],):
            r.fail("shape", site + "[%s]" % storage, "weights shape %s for %d columns" % (w.shape, D.shape[1]))
            continue
        if not np.isfinite(w).all():
            r.fail("nonfinite", site + "[%s]" % storage, "weights %s" % w.tolist()[:8])
            continue
        if (w < -1e-12).any():
            r.fail("negative", site + "[%s]" % storage, "weights %s" % w.tolist()[:8])
        if not np.allclose(w, want, rtol=1e-9, atol=1e-12):
            r.fail("value", site + "[%s]" % storage, "got %s, KL definition gives %s" % (w.tolist()[:6], want.tolist()[:6]))
    if len(results) == 2:
        a, b = results[case["storage"]], results["csr"]
        if a.shape == b.shape and not np.allclose(a, b, rtol=1e-9, atol=1e-12):
            r.fail("storage-dependent", site, "%s gives %s, csr gives %s" % (case["storage"], a.tolist()[:6], b.tolist()[:6]))
    if r.failures:
        return r
    base = results[case["storage"]]
    rp, cp = np.array(case["row_perm"]), np.array(case["col_perm"])
    s, w = call(L["iw"], store(L, D[rp, :], case["storage"]), ps, False)
    if s == "exc":
        r.fail(exc_kind(w), site + "[row-permuted]", exc_detail(w))
    elif not np.allclose(np.asarray(w), base, rtol=1e-9, atol=1e-12):
        r.fail("row-permutation", site, "weights changed under row permutation: %s vs %s" % (np.asarray(w).tolist()[:6], base.tolist()[:6]))
    s, w = call(L["iw"], store(L, D[:, cp], case["storage"]), ps, False)
    if s == "exc":
        r.fail(exc_kind(w), site + "[col-permuted]", exc_detail(w))
    elif not np.allclose(np.asarray(w), base[cp], rtol=1e-9, atol=1e-12):
        r.fail("column-permutation", site, "weights do not permute with the columns: %s vs %s" % (np.asarray(w).tolist()[:6], base[cp].tolist()[:6]))
    return r


@st.composite
def tr_cases(draw, tier):
    n, m = draw(st.integers(1, 10)), draw(st.integers(1, 8))
    variant = draw(st.sampled_from(["exact", "exact", "approx", "supervised"]))
    c = {
        "X": draw(matrix(n, m)), "Y": draw(matrix(n, m)), "Z": draw(matrix(n, m)),
        "storage": draw(st.sampled_from(STORAGES + ["dense"])),
        "prior_strength": draw(st.sampled_from([1e-4, 1e-2, 0.1, 1.0, 10.0])),
        "weight_power": draw(st.sampled_from([0.5, 1.0, 2.0])),
        "variant": variant,
        "a": draw(st.sampled_from([0.5, 1.0, 2.0, 3.0])), "b": draw(st.sampled_from([0.25, 1.0, 4.0])),
        "pre_use": draw(st.booleans()),
    }
    if variant == "supervised":
        c["y"] = draw(st.lists(st.integers(0, 2), min_size=n, max_size=n))
        c["exact_prior"] = draw(st.booleans())
    return c


def dense_of(L, A):
    return A.toarray() if L["sp"].issparse(A) else L["np"].asarray(A)


def check_tr(case):
    L = lib()
    np, sp = L["np"], L["sp"]
    r = Result()
    D = np.asarray(case["X"], dtype=np.float64)
    variant = case["variant"]
    site = "InformationWeightTransformer[%s]" % variant
    r.label("variant:" + variant, "storage:" + case["storage"], "power:%g" % case["weight_power"])
    approx = variant == "approx" or (variant == "supervised" and not case.get("exact_prior", True))
    est = L["T"](prior_strength=case["prior_strength"], approx_prior=approx, weight_power=case["weight_power"])
    y = np.array(case["y"]) if variant == "supervised" else None
    if case.get("pre_use"):
        # history: the estimator object was fitted on, and used with, another matrix of the same width before
        r.label("previously-used-estimator")
        Zp = np.asarray(case["Z"], dtype=np.float64)
        if Zp.sum() > 0:
            sp_, _o = call(est.fit, store(L, Zp, case["storage"]), y if (y is not None and len(y) == Zp.shape[0]) else None)
            if sp_ == "ok":
                call(est.transform, store(L, np.asarray(case["Y"], dtype=np.float64), case["storage"]))
    s, out = call(est.fit, store(L, D, case["storage"]), y)
    if s == "exc":
        r.fail(exc_kind(out), site + ".fit", exc_detail(out))
        return r
    if out is not est:
        r.fail("fit-return", site + ".fit", "fit returned %r" % type(out))
    w = np.asarray(est.information_weights_, dtype=np.float64)
    r.nontrivial = profiles_differ(np, D) and case["storage"] != "csr"
    kl = ref_kl(np, D, case["prior_strength"])
    all_zero = bool(np.all(np.abs(kl) <= 1e-12))
    if variant == "exact":
        if not np.isfinite(w).all() or (w < 0).any():
            r.fail("weights-invalid", site + ".fit", "weights %s (KL %s)" % (w.tolist()[:8], kl.tolist()[:8]), all_kl_zero=all_zero)
            return r
        if not all_zero:
            # compared before the power is applied: a power < 1 would magnify float64 rounding of exact zeros
            want = np.maximum(kl / kl.mean(), 0.0)
            if not np.allclose(np.power(w, 1.0 / case["weight_power"]), want, rtol=1e-7, atol=1e-9):
                r.fail("weights-value", site + ".fit", "weights %s, from the KL definition %s" % (w.tolist()[:6], want.tolist()[:6]))
    else:
        # approximate / supervised variants: the per-column divergences are taken as given (module-level information_weight);
        # what is checked is the documented composition: mean-normalise, clamp at zero, raise to the power, multiply
        # same storage as the transformer's input: the approximate prior legitimately depends on the stored entries
        Xs = store(L, D, "csc" if case["storage"] == "dense" else case["storage"])
        with np.errstate(all="ignore"):
            s0, w0 = call(L["iw"], Xs, case["prior_strength"], approx)
            if s0 == "ok":
                w0 = np.asarray(w0, dtype=np.float64)
                if variant == "supervised":
                    classes = np.unique(y)
                    target = np.array([int(np.searchsorted(classes, v)) for v in y], dtype=np.int64)
                    s1, w1 = call(L["iw"], Xs, case["prior_strength"], approx, target)
                    sw = est.supervision_weight
                    if s1 == "ok":
                        w1 = np.asarray(w1, dtype=np.float64)
                        want = np.power(np.maximum(w0 / w0.mean(), 0.0), (1.0 - sw) * case["weight_power"]) * \
                            np.power(np.maximum(w1 / w1.mean(), 0.0), sw * case["weight_power"])
                    else:
                        want = None
                else:
                    want = np.power(np.maximum(w0 / w0.mean(), 0.0), case["weight_power"])
            else:
                want = None
        if want is None or not np.isfinite(want).all():
            r.label("degenerate-weights-outside-claim")     # zero mean divergence (the F27 situation for these variants)
            return r
        if not np.isfinite(w).all() or (w < 0).any() or not np.allclose(w, want, rtol=1e-7, atol=1e-12):
            r.fail("weights-composition", site + ".fit", "weights %s, but mean-normalise / clamp / power of the column divergences gives %s"
                   % (w.tolist()[:6], want.tolist()[:6]))
            return r
    # transform: fixed column scaling, linear, support preserving
    Y = np.asarray(case["Y"], dtype=np.float64)
    Z = np.asarray(case["Z"], dtype=np.float64)
    outs = {}
    for name, M in (("Y", Y), ("Z", Z), ("comb", case["a"] * Y + case["b"] * Z)):
        s, t = call(est.transform, store(L, M, case["storage"]))
        if s == "exc":
            r.fail(exc_kind(t), site + ".transform", exc_detail(t))
            return r
        T = dense_of(L, t)
        outs[name] = T
        if T.shape != M.shape:
            r.fail("shape", site + ".transform", "shape %s for input %s" % (T.shape, M.shape))
            return r
        if not np.allclose(T, M * w[None, :], rtol=1e-12, atol=0):
            r.fail("not-column-scaling", site + ".transform", "transform(X) != X @ diag(weights)")
        if ((T != 0) & (M == 0)).any():
            r.fail("support-grew", site + ".transform", "a non-zero appeared where the input was zero")
    if not np.allclose(outs["comb"], case["a"] * outs["Y"] + case["b"] * outs["Z"], rtol=1e-12, atol=1e-12):
        r.fail("not-linear", site + ".transform", "transform(aX+bY) != a transform(X) + b transform(Y)")
    w2 = np.asarray(est.information_weights_, dtype=np.float64)
    if not np.array_equal(w, w2):
        r.fail("weights-changed-by-transform", site + ".transform", "information_weights_ changed")
    return r


FAMILIES = {
    "function": Family(fn_cases, check_fn, {"quick": 1600, "thorough": 30000}, {"quick": 4, "thorough": 16}),
    "transformer": Family(tr_cases, check_tr, {"quick": 1200, "thorough": 20000}, {"quick": 4, "thorough": 16}),
}
