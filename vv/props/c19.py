"""C19 - sliding windows contain exactly the documented in-range elements."""
import math

from hypothesis import strategies as st

from vv.core import Family, Result, call, exc_kind, exc_detail

RULE = ("Hypothesis draws 1-3 numeric sequences (1-d or (L, d), d<=3, int or float, length up to 40, each embedded in a larger buffer whose "
        "guard cells hold 1e30 so that an out-of-range read is visible), width, stride, every form of window_sample (None, integer "
        "stride, (start, stride), index list incl. full-length permutations and repeats), padding, and a kernel list (none, average, "
        "weight, gaussian_weight, differences, position_velocity, explicit matrix, chains of two). Oracle: numpy slicing of the padded "
        "sequence at the documented positions times a kernel matrix built from the definitions (position_velocity / gaussian / explicit "
        "matrices are taken as given: only the windowing is judged), window count ceil((L - width + 1) / stride); "
        "SequentialDifferenceTransformer against x[i+s] - x[i]. Non-trivial: more than one window and (stride > 1 or a non-trivial "
        "sample or padding); distinct by SHA-1 of the case.")
ASSUMPTIONS = ["len(sequence) + 2*pad_width >= window_width >= 1, stride >= 1, sample indices within [0, width); a 2-element window_sample is the documented (start, stride) pair",
               "float results are compared with rtol 1e-9 (the kernel product is compiled with fastmath)"]

_L = {}


def lib():
    if not _L:
        import numpy as np
        from vectorizers.transformers import SlidingWindowTransformer, SequentialDifferenceTransformer
        from vectorizers import _window_kernels as wk
        _L.update(np=np, SW=SlidingWindowTransformer, SD=SequentialDifferenceTransformer, wk=wk)
    return _L


GUARD = 1e30
IGUARD = 10 ** 9


@st.composite
def seqs(draw, min_len, max_len, d=None, dtype=None):
    d = draw(st.sampled_from([0, 0, 1, 2, 3])) if d is None else d
    dtype = draw(st.sampled_from(["int", "float"])) if dtype is None else dtype
    elem = st.integers(-20, 20) if dtype == "int" else st.one_of(st.integers(-20, 20).map(float), st.floats(-100, 100, allow_nan=False, width=32).map(float))
    k = draw(st.integers(1, 3))
    out = []
    for _ in range(k):
        L = draw(st.integers(min_len, max_len))
        if d == 0:
            out.append(draw(st.lists(elem, min_size=L, max_size=L)))
        else:
            out.append(draw(st.lists(st.lists(elem, min_size=d, max_size=d), min_size=L, max_size=L)))
    return {"d": d, "dtype": dtype, "seqs": out}


@st.composite
def kernel_spec(draw, n_cols):
    kind = draw(st.sampled_from(["none", "average", "weight", "gaussian_weight", "differences", "position_velocity", "matrix"]))
    if kind == "none":
        return None
    if kind == "average":
        return ["average"]
    if kind == "weight":
        return ["weight", draw(st.lists(st.sampled_from([0.0, 0.5, 1.0, 2.0, -1.0, 0.25]), min_size=n_cols, max_size=n_cols))]
    if kind == "gaussian_weight":
        return ["gaussian_weight", draw(st.sampled_from([0.5, 1.0, 2.5]))]
    if kind == "differences":
        if n_cols < 2:
            return ["average"]
        step = draw(st.integers(1, n_cols - 1))
        start = draw(st.integers(0, n_cols - 1 - step))
        stride = draw(st.integers(1, 3))
        return ["differences", start, step, stride]
    if kind == "position_velocity":
        if n_cols < 3:
            return ["average"]
        pos = draw(st.integers(1, n_cols - 2))
        return ["position_velocity", pos, 1, draw(st.integers(1, 2))]
    k = draw(st.integers(1, 3))
    return ["matrix", draw(st.lists(st.lists(st.sampled_from([0.0, 1.0, -1.0, 0.5, 2.0]), min_size=n_cols, max_size=n_cols), min_size=k, max_size=k))]


def kernel_rows(spec, n_cols):
    """number of output rows of a kernel spec (to chain a second kernel)"""
    if spec is None:
        return n_cols
    k = spec[0]
    if k == "average":
        return 1
    if k in ("weight", "gaussian_weight"):
        return n_cols
    if k == "differences":
        _, start, step, stride = spec
        return len(range(start, n_cols - step, stride))
    if k == "matrix":
        return len(spec[1])
    return None


@st.composite
def sw_cases(draw, tier):
    big = tier == "thorough"
    width = draw(st.integers(1, 10))
    pad = draw(st.sampled_from([0, 0, 1, 2, 3]))
    stride = draw(st.integers(1, 5))
    data = draw(seqs(max(1, width - 2 * pad), 40 if big else 24))
    sample_kind = draw(st.sampled_from(["none", "int", "pair", "list", "perm", "repeats", "perm_fixed_ends", "repeats_fixed_ends"]))
    if sample_kind == "none":
        sample, positions = None, list(range(width))
    elif sample_kind == "int":
        n = draw(st.integers(1, width))
        sample, positions = n, list(range(0, width, n))
    elif sample_kind == "pair":
        start = draw(st.integers(0, width - 1))
        s2 = draw(st.integers(1, width))
        sample, positions = [start, s2], list(range(start, width, s2))
    elif sample_kind == "list":
        positions = draw(st.lists(st.integers(0, width - 1), min_size=1, max_size=max(1, width - 1)).filter(lambda l: len(l) != 2))
        sample = list(positions)
    elif sample_kind == "perm":
        positions = list(draw(st.permutations(list(range(width)))))
        if len(positions) == 2:
            positions, sample_kind = [0, 1], "none"
            sample = None
        else:
            sample = list(positions)
    elif sample_kind in ("perm_fixed_ends", "repeats_fixed_ends") and width >= 4:
        # full-width index lists that keep both end points but permute / repeat interior positions
        inner = list(range(1, width - 1))
        if sample_kind == "perm_fixed_ends":
            mid = list(draw(st.permutations(inner)))
        else:
            mid = draw(st.lists(st.sampled_from(inner), min_size=len(inner), max_size=len(inner)))
        positions = [0] + mid + [width - 1]
        sample = list(positions)
    else:
        sample_kind = "repeats"
        positions = draw(st.lists(st.integers(0, width - 1), min_size=width, max_size=width + 2).filter(lambda l: len(l) != 2))
        sample = list(positions)
    n_cols = len(positions)
    k1 = draw(kernel_spec(n_cols))
    kernels = [k1] if k1 is not None else None
    rows = kernel_rows(k1, n_cols)
    if k1 is not None and rows and k1[0] in ("weight", "gaussian_weight", "matrix") and draw(st.booleans()):
        k2 = draw(kernel_spec(rows))
        if k2 is not None:
            kernels.append(k2)
    pad_value = draw(st.integers(-3, 3)) if data["dtype"] == "int" else draw(st.sampled_from([0.0, -1.5, 7.0]))
    return {"width": width, "stride": stride, "pad_width": pad, "pad_value": pad_value, "sample_kind": sample_kind,
            "window_sample": sample, "positions": positions, "kernels": kernels, "data": data}


def ref_kernel_matrix(L, spec, n_cols):
    np, wk = L["np"], L["wk"]
    k = spec[0]
    if k == "average":
        return np.full((1, n_cols), 1.0 / n_cols)
    if k == "weight":
        return np.diag(np.asarray(spec[1], dtype=np.float64))
    if k == "gaussian_weight":
        return np.asarray(wk.gaussian_weight_kernel(n_cols, spec[1]))           # taken as given
    if k == "differences":
        _, start, step, stride = spec
        rows = []
        i = start
        while i + step <= n_cols - 1:
            row = np.zeros(n_cols)
            row[i] -= 1
            row[i + step] += 1
            rows.append(row)
            i += stride
        return np.array(rows).reshape(len(rows), n_cols)
    if k == "position_velocity":
        return np.asarray(wk.positon_velocity_kernel(n_cols, *spec[1:]))        # taken as given
    if k == "matrix":
        return np.asarray(spec[1], dtype=np.float64)
    raise ValueError(k)


def lib_kernels(L, kernels):
    np = L["np"]
    if kernels is None:
        return None
    out = []
    for spec in kernels:
        k = spec[0]
        if k == "average":
            out.append("average")
        elif k == "weight":
            out.append(("weight", np.asarray(spec[1], dtype=np.float64)))
        elif k == "matrix":
            out.append(np.asarray(spec[1], dtype=np.float64))
        else:
            out.append(tuple(spec))
    return out


def guarded(L, seq, dtype, d):
    """the sequence as a view into a larger buffer whose other cells hold a sentinel"""
    np = L["np"]
    a = np.asarray(seq, dtype=np.int64 if dtype == "int" else np.float64)
    if d > 0:
        a = a.reshape(-1, d)
    g = 5
    buf = np.full((a.shape[0] + 2 * g,) + a.shape[1:], IGUARD if dtype == "int" else GUARD, dtype=a.dtype)
    buf[g:g + a.shape[0]] = a
    return buf[g:g + a.shape[0]], a


def check_sw(case):
    L = lib()
    np = L["np"]
    r = Result()
    width, stride, pad = case["width"], case["stride"], case["pad_width"]
    data = case["data"]
    d, dtype = data["d"], data["dtype"]
    positions = case["positions"]
    site = "SlidingWindowTransformer[sample=%s]" % case["sample_kind"]
    r.label("sample:" + case["sample_kind"], "pad:%d" % min(pad, 1), "d:%d" % d, dtype,
            "kernels:" + ("none" if not case["kernels"] else "+".join(k[0] for k in case["kernels"])))
    # reference kernel matrix
    K = np.eye(len(positions))
    for spec in case["kernels"] or []:
        K = ref_kernel_matrix(L, spec, K.shape[0]) @ K
    views, plain = zip(*[guarded(L, s, dtype, d) for s in data["seqs"]])
    ws = case["window_sample"]
    if case["sample_kind"] == "pair":
        ws = tuple(ws)
    est = L["SW"](window_width=width, window_stride=stride, window_sample=ws, kernels=lib_kernels(L, case["kernels"]),
                  pad_width=pad, pad_value=case["pad_value"])
    s, out = call(lambda: est.fit(list(views)).transform(list(views)))
    if s == "exc":
        r.fail(exc_kind(out), site, exc_detail(out), sample_kind=case["sample_kind"])
        return r
    if len(out) != len(plain):
        r.fail("count", site, "%d outputs for %d sequences" % (len(out), len(plain)))
        return r
    multi = False
    for a, got in zip(plain, out):
        if pad:
            padv = np.full((pad,) + a.shape[1:], case["pad_value"], dtype=a.dtype)
            a = np.concatenate([padv, a, padv])
        n = int(math.ceil((a.shape[0] - width + 1) / stride))
        rows = []
        for i in range(n):
            w = a[i * stride:i * stride + width][positions].astype(np.float64)
            rows.append(np.asarray(K @ w).flatten())
        want = np.array(rows).reshape(n, -1) if rows else np.zeros((0, 0))
        got = np.asarray(got)
        multi = multi or n > 1
        if got.shape[0] != n:
            r.fail("window-count", site, "%d windows, expected ceil((%d - %d + 1)/%d) = %d" % (got.shape[0], a.shape[0], width, stride, n),
                   sample_kind=case["sample_kind"])
            continue
        if n and got.shape != want.shape:
            r.fail("window-shape", site, "output shape %s, expected %s (positions %s)" % (got.shape, want.shape, positions),
                   sample_kind=case["sample_kind"], sample_len_ge_width=len(positions) >= width)
            continue
        if n and not np.allclose(got, want, rtol=1e-9, atol=1e-9):
            bad = np.argwhere(~np.isclose(got, want, rtol=1e-9, atol=1e-9))[0]
            r.fail("window-values", site, "window %d col %d: got %r expected %r (positions %s, width %d, stride %d)"
                   % (bad[0], bad[1], got[tuple(bad)], want[tuple(bad)], positions, width, stride),
                   sample_kind=case["sample_kind"], sample_len_ge_width=len(positions) >= width)
    r.nontrivial = multi and (stride > 1 or case["sample_kind"] != "none" or pad > 0)
    return r


@st.composite
def sd_cases(draw, tier):
    s = draw(st.integers(1, 6))
    # history: the same transformer object may have been fitted with another stride before (set_params + refit)
    prior = draw(st.one_of(st.none(), st.integers(1, 6)))
    return {"stride": s, "prior_stride": prior, "data": draw(seqs(max(s, prior or 1) + 1, 30, dtype=None))}


def check_sd(case):
    L = lib()
    np = L["np"]
    r = Result()
    s_, data = case["stride"], case["data"]
    site = "SequentialDifferenceTransformer"
    r.label("stride:%d" % s_, "d:%d" % data["d"])
    views, plain = zip(*[guarded(L, q, data["dtype"], data["d"]) for q in data["seqs"]])
    if case.get("prior_stride"):
        r.label("refit-with-other-stride")
        est = L["SD"](stride=case["prior_stride"])
        call(lambda: est.fit(list(views)).transform(list(views)))
        est.set_params(stride=s_)
    else:
        est = L["SD"](stride=s_)
    s, out = call(lambda: est.fit(list(views)).transform(list(views)))
    if s == "exc":
        r.fail(exc_kind(out), site, exc_detail(out))
        return r
    for a, got in zip(plain, out):
        a = a.astype(np.float64)
        want = (a[s_:] - a[:-s_]).reshape(a.shape[0] - s_, -1)
        got = np.asarray(got)
        if got.shape != want.shape:
            r.fail("shape", site, "stride %d, length %d: output shape %s, expected %s" % (s_, a.shape[0], got.shape, want.shape))
        elif not np.allclose(got, want, rtol=1e-9, atol=1e-9):
            r.fail("values", site, "stride %d: differences do not equal x[i+s] - x[i]" % s_)
        if want.shape[0] > 1 and s_ > 1:
            r.nontrivial = True
    return r


FAMILIES = {
    "windows": Family(sw_cases, check_sw, {"quick": 480, "thorough": 6000}, {"quick": 12, "thorough": 16}),
    "seqdiff": Family(sd_cases, check_sd, {"quick": 160, "thorough": 1600}, {"quick": 4, "thorough": 16}),
}
