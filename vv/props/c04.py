"""C04 - co-occurrence results do not depend on threads, buffer sizes or data volume."""
from hypothesis import strategies as st

from vv import cooc_common as cc
from vv.core import Family, Result, call, exc_kind, exc_detail
from vv.gen import corpora, cooc as gc
from vv.props import c03
from vv.ref import cooc as rc

RULE = ("Four families. lowered: C03-style corpora of 50-2000 events executed in two persistent worker interpreters whose accumulator "
        "threshold is lowered through the guarded hook (VECTORIZERS_VERIF_COO_LIMIT = 64 and 512) with coo_initial_memory 1k/2k/16k and "
        "n_threads 1-3, so that sort-and-sum, multi-level merges and buffer growth happen many times. volume: corpora generated from a drawn "
        "seed (vocabulary 1, 2, 3, 10 or 1000; 7e4 - 2e6 events per block, i.e. below, at and far above the real threshold 65536 and the "
        "initial buffer) at the real threshold with coo_initial_memory 1k / 100k / 0.5 GiB and n_threads 1-4. transform: fit on a small corpus, "
        "transform one 10-1000 times larger. threads: n_threads 1..16 x dask num_workers 1/2/4/16 under NUMBA_NUM_THREADS 1 and 16, each "
        "configuration run twice. Oracle: every matrix equals the reference count (naive reference for small cases, a vectorised numpy "
        "reference for large ones; exact for flat kernels, float32 bound otherwise) and all configurations of a corpus agree; a worker "
        "that dies is a violation. Non-trivial: a block's event count exceeds the effective threshold, or the buffer had to grow, or "
        "n_threads >= 2 with >= 2 non-empty chunks, or the transform volume exceeds the fit volume; distinct by SHA-1 of the case.")
ASSUMPTIONS = ["thread interleavings are not controlled: pool sizes are varied and runs repeated (exploration of schedules, not coverage)",
               "flat kernels without normalisation give integer cells < 2^24, exact in float32 in any summation order",
               "a failure seen only under a lowered threshold is re-run at the real threshold before it is reported (none is reported as a violation otherwise)"]

KINDS = ["token", "timed", "multi", "ngram"]
SITE = {"token": "TokenCooccurrenceVectorizer", "timed": "TimedTokenCooccurrenceVectorizer", "multi": "MultiSetCooccurrenceVectorizer",
        "ngram": "NgramCooccurrenceVectorizer"}


# ------------------------------------------------------------------------------------------------ worker side
def run_small(payload):
    """executed in a worker: fit_transform one C03-style case, return the dense matrix"""
    L = cc.lib()
    np = L["np"]
    kind, case, extra = payload["kind"], payload["case"], payload["extra"]
    est = cc.build(kind, case, extra)
    M = est.fit_transform(cc.lib_input(kind, case))
    return {"matrix": np.asarray(M.todense(), dtype=np.float64), "sizes": [int(x) for x in est._coo_sizes]}


# ------------------------------------------------------------------------------------------------ lowered threshold
@st.composite
def lowered_cases(draw, tier):
    kind = draw(st.sampled_from(KINDS))
    big = tier == "thorough"
    c = draw(corpora.corpus(max_docs=6, max_len=80 if big else 50, max_alpha=5))
    if kind == "timed":
        c["docs"] = [[[t, float(i)] for i, t in enumerate(d)] for d in c["docs"]]
        c["base"] = 0.0
    elif kind == "multi":
        docs = []
        for d in c["docs"]:
            ms = [d[i:i + 2] for i in range(0, len(d), 2)]
            if ms:
                docs.append(ms)
        c["docs"] = docs or [[[corpora.STR_ALPHABET[0] if c["token_type"] == "str" else corpora.INT_ALPHABET[0]]]]
    c["kind"] = kind
    # volume: the drawn documents are repeated so that blocks exceed the lowered thresholds without huge draws
    c["docs"] = c["docs"] * draw(st.sampled_from([1, 2, 4, 8, 16]))
    c["specs"] = draw(gc.window_specs(kind, max_k=2, max_radius=6, allow_variable=False, allow_offset=kind != "multi"))
    c["normalize_windows"] = draw(st.booleans())
    c["prune"] = {}
    if kind == "ngram":
        c["ngram_size"] = 2
    c["coo_initial_memory"] = draw(st.sampled_from(["1k", "2k", "16k"]))
    c["n_threads"] = draw(st.sampled_from([1, 1, 2, 3]))
    return c


def check_lowered(case):
    from vv import workers
    L = cc.lib()
    np = L["np"]
    r = Result()
    kind = case["kind"]
    site = SITE[kind]
    r.label("kind:" + kind, "mem:" + case["coo_initial_memory"], "n_threads:%d" % case["n_threads"])
    e = cc.expectation(kind, case)
    if e.ambiguous or e.cells is None or not e.index:
        r.label("skipped")
        return r
    if kind == "ngram" and e.n_rows == 0:
        r.label("skipped")
        return r
    extra = {"coo_initial_memory": case["coo_initial_memory"], "n_threads": case["n_threads"]}
    shape = (e.n_rows, e.n_cols * len(e.blocks))
    per_block = [0] * len(e.blocks)
    for (row, col), (v, n) in e.cells.items():
        per_block[col // e.n_cols] += n
    mats = {}
    for limit in (64, 512):
        w = workers.get({"VECTORIZERS_VERIF_COO_LIMIT": str(limit)}, "limit=%d" % limit)
        s, out = w.call("vv.props.c04.run_small", {"kind": kind, "case": case, "extra": extra})
        if s == "crash":
            r.fail("crash", site + "[limit=%d]" % limit, "worker interpreter died (return code %s) while building this matrix" % out["returncode"],
                   lowered_only=True)
            continue
        if s == "exc":
            r.fail("exception:" + out["type"], site + "[limit=%d].fit_transform" % limit, out["msg"] + "\n" + out["tb"], lowered_only=True)
            continue
        A = out["matrix"]
        mats[limit] = A
        if A.shape != shape:
            r.fail("shape", site + "[limit=%d]" % limit, "shape %s, expected %s" % (A.shape, shape))
            continue
        bad = rc.compare(e.cells, A)
        if bad is not None:
            row, col, got, want, nev = bad
            r.fail("cell", site + "[limit=%d].fit_transform" % limit, "cell (%d, %d): got %r, definition gives %r from %d events "
                   "(events per block %s, buffer slots %s, coo_initial_memory=%s, n_threads=%d)"
                   % (row, col, got, want, nev, per_block, out["sizes"], case["coo_initial_memory"], case["n_threads"]), lowered_only=True)
        if max(per_block) > limit:
            r.nontrivial = True
            r.label("events>limit=%d" % limit)
        if any(pb >= sz for pb, sz in zip(per_block, out["sizes"])):
            r.label("events>=buffer")
    if r.failures and all(f.tags.get("lowered_only") for f in r.failures):
        # confirm at the real threshold before reporting (DESIGN C04 R): same corpus repeated so that the volume is proportional
        rep = max(1, (65536 * 3) // max(1, max(per_block)))
        big = dict(case, docs=case["docs"] * rep)
        eb = cc.expectation(kind, big)
        s, est = call(cc.build, kind, big, extra)
        s, M = call(est.fit_transform, cc.lib_input(kind, big))
        ok = s == "ok" and rc.compare(eb.cells, np.asarray(M.todense(), dtype=np.float64)) is None
        if ok:
            r.inconclusive = "lowered-threshold only"
            r.label("lowered-threshold-only")
            r.failures = []
    return r


# ------------------------------------------------------------------------------------------------ volume at the real threshold
@st.composite
def volume_cases(draw, tier):
    kind = draw(st.sampled_from(["token", "token", "timed", "multi", "ngram"]))
    vocab = draw(st.sampled_from([1, 2, 3, 10, 1000]))
    radius = draw(st.integers(1, 8))
    heavy = kind in ("token", "timed")
    # events per block ~ tokens * radius
    target = draw(st.sampled_from([7e4, 1.3e5, 3e5, 1e6, 2e6] if heavy else [7e4, 1e5, 2e5]))
    n_tokens = int(target / radius) + draw(st.integers(0, 50))
    n_docs = draw(st.sampled_from([1, 3, 16, 200]))
    return {"kind": kind, "vocab": vocab, "radius": radius, "n_tokens": n_tokens, "n_docs": n_docs,
            "seed": draw(st.integers(0, 2 ** 32 - 1)), "kernel": draw(st.sampled_from(["flat", "flat", "geometric"])),
            "orientation": draw(st.sampled_from(["after", "before", "directional"])),
            "coo_initial_memory": draw(st.sampled_from(["1k", "100k", "0.5 GiB"])),
            "n_threads": draw(st.sampled_from([1, 1, 2, 4])), "equal_docs": draw(st.sampled_from([False, False, True]))}


def make_corpus(np, case, n_tokens=None, seed_offset=0):
    rng = np.random.default_rng(case["seed"] + seed_offset)
    n_tokens = n_tokens or case["n_tokens"]
    n_docs = min(case["n_docs"], n_tokens)
    if case.get("equal_docs"):
        # documents of identical length: cumulative sizes hit every chunk boundary exactly (ties in the chunking)
        per = max(1, n_tokens // n_docs)
        n_tokens = per * n_docs
        cuts = np.arange(1, n_docs) * per
    else:
        cuts = np.sort(rng.integers(0, n_tokens + 1, size=n_docs - 1)) if n_docs > 1 else np.array([], dtype=np.int64)
    bounds = np.concatenate([[0], cuts, [n_tokens]]).astype(np.int64)
    flat = rng.integers(0, case["vocab"], size=n_tokens)
    return [flat[bounds[i]:bounds[i + 1]] for i in range(n_docs)]


def vec_token_counts(np, docs, n, radius, weights, blocks_reverse):
    """vectorised reference: one (n x n) block per entry of blocks_reverse, float64"""
    out = []
    for reverse in blocks_reverse:
        M = np.zeros(n * n)
        for a in docs:
            L = len(a)
            for d in range(1, min(radius, L - 1) + 1):
                heads, tails = a[:-d], a[d:]
                rows, cols = (tails, heads) if reverse else (heads, tails)
                M += np.bincount(rows * n + cols, minlength=n * n) * weights[d - 1]
        out.append(M.reshape(n, n))
    return np.hstack(out)


def lib_corpus(np, kind, docs, names):
    if kind == "timed":
        return [[(names[t], float(i)) for i, t in enumerate(d)] for d in docs]
    if kind == "multi":
        return [[[names[t] for t in d[i:i + 2]] for i in range(0, len(d), 2)] for d in docs if len(d)]
    return [[names[t] for t in d] for d in docs]


def volume_spec(case):
    sp = {"kernel": case["kernel"], "radius": case["radius"], "orientation": case["orientation"], "mix": 1.0, "window": "fixed",
          "offset": 0, "normalize": False}
    if case["kernel"] == "geometric":
        sp["power"] = 0.5
    return sp


def check_volume(case, transform_factor=None):
    L = cc.lib()
    np = L["np"]
    r = Result()
    kind = case["kind"]
    site = SITE[kind]
    docs = make_corpus(np, case)
    present = sorted(set(int(x) for d in docs for x in d))
    names = {t: "t%04d" % t for t in range(case["vocab"])}
    n = len(present)
    remap = {t: i for i, t in enumerate(present)}          # sorted names == sorted ints thanks to zero padding
    sp = volume_spec(case)
    ccase = {"docs": None, "specs": [sp], "normalize_windows": False, "prune": {}, "ngram_size": 2}
    extra = {"coo_initial_memory": case["coo_initial_memory"], "n_threads": case["n_threads"]}
    r.label("kind:" + kind, "vocab:%d" % case["vocab"], "mem:" + case["coo_initial_memory"], "n_threads:%d" % case["n_threads"],
            "kernel:" + case["kernel"])
    X = lib_corpus(np, kind, docs, names)
    s, est = call(cc.build, kind, ccase, extra)
    if s == "exc":
        r.fail(exc_kind(est), site + ".__init__", exc_detail(est))
        return r
    s, M = call(est.fit_transform, X)
    if s == "exc":
        r.fail(exc_kind(M), site + ".fit_transform", exc_detail(M), mem=case["coo_initial_memory"])
        return r
    nb = 2 if case["orientation"] == "directional" else 1
    reverses = [True, False] if nb == 2 else [case["orientation"] == "before"]
    weights = [1.0] * case["radius"] if case["kernel"] == "flat" else [0.5 ** d for d in range(1, case["radius"] + 1)]
    if kind in ("token", "timed"):
        lut = np.full(case["vocab"], -1, dtype=np.int64)
        lut[present] = np.arange(n)
        idocs = [lut[d] for d in docs]
        W = vec_token_counts(np, idocs, n, case["radius"], weights, reverses)
        events = int(sum(sum(max(0, len(d) - k) for k in range(1, case["radius"] + 1)) for d in docs))
    else:
        ccase["docs"] = X
        e = cc.expectation(kind, ccase)
        shape = (e.n_rows, e.n_cols * len(e.blocks))
        W, N = cc.cell_matrix(np, e.cells, shape)
        events = int(N.sum() / nb)
    A = np.asarray(M.todense(), dtype=np.float64)
    if A.shape != W.shape:
        r.fail("shape", site + ".fit_transform", "shape %s, expected %s" % (A.shape, W.shape))
        return r
    if case["kernel"] == "flat":
        ok = np.array_equal(A, W)
    else:
        ok = np.allclose(A, W, rtol=2e-3, atol=1e-6)
    if not ok:
        diff = A - W
        i, j = np.unravel_index(np.argmax(np.abs(diff)), diff.shape)
        r.fail("cell", site + ".fit_transform", "cell (%d, %d): got %r, reference %r; matrix total %r vs %r; %d events per block, "
               "buffer slots %s, coo_initial_memory=%s, n_threads=%d, vocabulary %d"
               % (i, j, A[i, j], W[i, j], A.sum(), W.sum(), events, [int(x) for x in est._coo_sizes], case["coo_initial_memory"],
                  case["n_threads"], n), mem=case["coo_initial_memory"])
    r.label("events:%s" % ("<65536" if events < 65536 else "<3e5" if events < 3e5 else ">=3e5"))
    r.nontrivial = events > 65536 or any(events >= int(x) for x in est._coo_sizes)
    return r


# ------------------------------------------------------------------------------------------------ transform larger than fit
@st.composite
def transform_cases(draw, tier):
    c = draw(volume_cases(tier))
    c["kind"] = draw(st.sampled_from(["token", "multi", "timed"]))
    c["fit_tokens"] = draw(st.sampled_from([20, 200, 2000]))
    c["factor"] = draw(st.sampled_from([10, 100, 1000]))
    c["n_tokens"] = min(c["fit_tokens"] * c["factor"], 400000 if c["kind"] == "token" else 60000)
    c["vocab"] = draw(st.sampled_from([2, 3, 10, 50]))
    return c


def check_transform(case):
    L = cc.lib()
    np = L["np"]
    r = Result()
    kind = case["kind"]
    site = SITE[kind]
    names = {t: "t%04d" % t for t in range(case["vocab"])}
    fit_docs = make_corpus(np, case, n_tokens=case["fit_tokens"], seed_offset=1)
    big_docs = make_corpus(np, case)
    sp = volume_spec(case)
    ccase = {"docs": None, "specs": [sp], "normalize_windows": False, "prune": {}}
    extra = {"coo_initial_memory": case["coo_initial_memory"], "n_threads": case["n_threads"]}
    r.label("kind:" + kind, "factor:%d" % case["factor"], "mem:" + case["coo_initial_memory"], "n_threads:%d" % case["n_threads"])
    s, est = call(cc.build, kind, ccase, extra)
    s, _ = call(est.fit, lib_corpus(np, kind, fit_docs, names))
    if s == "exc":
        r.fail(exc_kind(_), site + ".fit", exc_detail(_))
        return r
    vocab = cc.norm_dict(est.token_label_dictionary_)
    s, M = call(est.transform, lib_corpus(np, kind, big_docs, names))
    if s == "exc":
        r.fail(exc_kind(M), site + ".transform", exc_detail(M), mem=case["coo_initial_memory"])
        return r
    # reference on the large corpus restricted to the fitted vocabulary (unknown tokens are deleted)
    idx = {int(k[1:]): v for k, v in vocab.items()}
    n = len(vocab)
    nb = 2 if case["orientation"] == "directional" else 1
    reverses = [True, False] if nb == 2 else [case["orientation"] == "before"]
    weights = [1.0] * case["radius"] if case["kernel"] == "flat" else [0.5 ** d for d in range(1, case["radius"] + 1)]
    if kind in ("token", "timed"):
        if kind == "timed":
            # deletion changes positions but not timestamps: distances in time stay, so only the all-known case is comparable cheaply
            big_docs = [np.array([x for x in d if int(x) in idx]) for d in big_docs]
            X2 = lib_corpus(np, kind, big_docs, names)
            s, M = call(est.transform, X2)
        idocs = [np.array([idx[int(x)] for x in d if int(x) in idx], dtype=np.int64) for d in big_docs]
        W = vec_token_counts(np, idocs, n, case["radius"], weights, reverses)
        if kind == "timed":
            # timed geometric weights use delta_mean_ of the *fit*: compare flat only, geometric through delta
            if case["kernel"] == "geometric":
                delta = float(est.delta_mean_)
                if delta <= 0:
                    r.label("delta-zero")
                    return r
                weights = [0.5 ** (d / delta) for d in range(1, case["radius"] + 1)]
                W = vec_token_counts(np, idocs, n, case["radius"], weights, reverses)
    else:
        ccase2 = dict(ccase, docs=lib_corpus(np, kind, fit_docs, names))
        e = cc.expectation(kind, ccase2, data=lib_corpus(np, kind, big_docs, names))
        W, _ = cc.cell_matrix(np, e.cells, (e.n_rows, e.n_cols * len(e.blocks)))
    A = np.asarray(M.todense(), dtype=np.float64)
    if A.shape != W.shape:
        r.fail("shape", site + ".transform", "shape %s, expected %s" % (A.shape, W.shape))
        return r
    ok = np.array_equal(A, W) if case["kernel"] == "flat" else np.allclose(A, W, rtol=2e-3, atol=1e-6)
    if not ok:
        diff = A - W
        i, j = np.unravel_index(np.argmax(np.abs(diff)), diff.shape)
        r.fail("cell", site + ".transform", "cell (%d, %d): got %r, reference %r; totals %r vs %r; fit on %d tokens, transform of %d; buffer slots %s"
               % (i, j, A[i, j], W[i, j], A.sum(), W.sum(), case["fit_tokens"], case["n_tokens"], [int(x) for x in est._coo_sizes]),
               mem=case["coo_initial_memory"])
    r.nontrivial = case["n_tokens"] > case["fit_tokens"]
    return r


# ------------------------------------------------------------------------------------------------ threads
@st.composite
def thread_cases(draw, tier):
    c = draw(volume_cases(tier))
    c["kind"] = draw(st.sampled_from(KINDS))
    c["n_tokens"] = draw(st.sampled_from([300, 3000, 20000]))
    c["n_docs"] = draw(st.sampled_from([1, 2, 5, 17, 64]))
    c["n_threads_list"] = sorted(set(draw(st.lists(st.integers(1, 16), min_size=2, max_size=3))))
    c["dask_workers"] = draw(st.sampled_from([1, 2, 4, 16]))
    c["equal_docs"] = draw(st.booleans())
    if c["equal_docs"]:
        nt = draw(st.sampled_from([2, 3, 4, 6, 8]))
        c["n_docs"] = nt * draw(st.sampled_from([1, 2, 3]))
        c["n_threads_list"] = sorted(set(c["n_threads_list"][:1] + [nt, 1]))
    return c


def check_threads(case):
    import dask
    L = cc.lib()
    np = L["np"]
    r = Result()
    kind = case["kind"]
    site = SITE[kind]
    names = {t: "t%04d" % t for t in range(case["vocab"])}
    docs = make_corpus(np, case)
    X = lib_corpus(np, kind, docs, names)
    sp = volume_spec(case)
    ccase = {"docs": X, "specs": [sp], "normalize_windows": False, "prune": {}, "ngram_size": 2}
    r.label("kind:" + kind, "dask_workers:%d" % case["dask_workers"], "mem:" + case["coo_initial_memory"])
    e = cc.expectation(kind, ccase)
    if e.ambiguous or e.cells is None or (kind == "ngram" and e.n_rows == 0):
        r.label("skipped")
        return r
    W, N = cc.cell_matrix(np, e.cells, (e.n_rows, e.n_cols * len(e.blocks)))
    mats = []
    with dask.config.set(num_workers=case["dask_workers"]):
        for nt in case["n_threads_list"]:
            for rep in range(2):
                s, est = call(cc.build, kind, ccase, {"coo_initial_memory": case["coo_initial_memory"], "n_threads": nt})
                s, M = call(est.fit_transform, X)
                if s == "exc":
                    r.fail(exc_kind(M), site + ".fit_transform[n_threads=%d]" % nt, exc_detail(M), mem=case["coo_initial_memory"], n_threads=nt)
                    break
                A = np.asarray(M.todense(), dtype=np.float64)
                ok = A.shape == W.shape and (np.array_equal(A, W) if case["kernel"] == "flat" else np.allclose(A, W, rtol=2e-3, atol=1e-6))
                if not ok:
                    r.fail("cell", site + ".fit_transform[n_threads=%d]" % nt, "matrix differs from the reference: totals %r vs %r (n_threads=%d, dask workers %d, "
                           "buffer slots %s, %d documents)" % (A.sum(), W.sum(), nt, case["dask_workers"], [int(x) for x in est._coo_sizes], len(X)),
                           mem=case["coo_initial_memory"], n_threads=nt)
                    break
                r.label("n_threads:%s" % ("1" if nt == 1 else "2-4" if nt <= 4 else "5-16"))
                chunks = est._generate_chunk_boundaries(X if kind != "multi" else X, nt) if nt > 1 else [(0, len(X))]
                if nt >= 2 and sum(1 for a, b in chunks if b > a) >= 2:
                    r.nontrivial = True
    return r


FAMILIES = {
    "lowered": Family(lowered_cases, check_lowered, {"quick": 160, "thorough": 4000}, {"quick": 4, "thorough": 16}),
    "volume": Family(volume_cases, check_volume, {"quick": 30, "thorough": 600}, {"quick": 5, "thorough": 16}),
    "transform": Family(transform_cases, check_transform, {"quick": 18, "thorough": 300}, {"quick": 3, "thorough": 16}),
    "threads_nb1": Family(thread_cases, check_threads, {"quick": 12, "thorough": 200}, {"quick": 2, "thorough": 8},
                          env={"NUMBA_NUM_THREADS": "1"}),
    "threads_nb16": Family(thread_cases, check_threads, {"quick": 12, "thorough": 200}, {"quick": 2, "thorough": 8},
                           env={"NUMBA_NUM_THREADS": "16"}),
}
