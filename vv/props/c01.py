"""C01 - transform returns one row per input item in the fitted column space."""
import copy

from hypothesis import strategies as st

from vv import fam as F
from vv.core import Family, Result, call, exc_kind, exc_detail
from vv.props.c02 import rows_equal

RULE = ("For each row-producing family (Ngram, Skipgram, LZ, BPE x 3 return types, Histogram, KDE, Distribution, Wasserstein x "
        "{LOT_exact spmatrix/lil/generator, LOT_sinkhorn, Heuristic}, Sinkhorn, ApproximateWasserstein, EdgeList, and the token / timed "
        "/ multiset / n-gram / tree co-occurrence vectorizers) Hypothesis draws parameters, a training set X and an independent "
        "transform set X' over a superset alphabet (unseen tokens, labels, characters, phrases; empty items; items shorter and longer "
        "than anything in X). Oracle: (a) no exception escapes transform; (b) shape = (len(X') or fitted vocabulary size, width of "
        "fit_transform(X)) and the width equals len(column dictionary) where one exists; (c) co-occurrence cells of transform(X') equal "
        "the C03 reference evaluated on X' with the fitted vocabulary (the other families' cell meanings are checked on transform "
        "inputs by C06, C09, C16, C20); (d) row order: transform(X')[i] == transform([X'[i]])[0]; (e) unseen vocabulary is ignored: "
        "transform(X') == transform(X' with unseen tokens deleted). Non-trivial: X' != X and an unseen symbol, an empty item, or a "
        "training column absent from X'; distinct by SHA-1 of the case.")
ASSUMPTIONS = ["KDE / Distribution / Wasserstein columns carry no labels: shape, finiteness and row order only",
               "documented rejections (ValueError for a wrong matrix width) are not generated"]

TOKEN_FAMS = {"ngram", "skipgram"}


def strip_unseen(name, spec, est, data):
    """X' with tokens the fitted model does not know deleted (None if not applicable)."""
    if name in TOKEN_FAMS and not (spec.get("params") or {}).get("mask_string"):
        known = set(est._token_dictionary_)
        return [[t for t in d if t in known] for d in data]
    return None


def make_check(name):
    def check(spec):
        fam = F.get(name)
        np = F.lib()["np"]
        r = Result()
        r.label("family:" + name)
        site = name
        s, est = call(fam.make, copy.deepcopy(spec))
        if s == "exc":
            r.fail(exc_kind(est), site + ".__init__", exc_detail(est))
            return r
        s, r1 = call(F.fit_call, fam, est, spec, "fit_transform")
        if s == "exc":
            if name.endswith("_cooc") and name != "tree_cooc":
                from vv import cooc_common as cc
                if cc.degenerate(name[:-5], spec["case"]):
                    r.label("degenerate-corpus")
                    return r
            if isinstance(r1, (ValueError, NotImplementedError)):
                r.label("fit-rejected:" + type(r1).__name__)
                return r
            r.fail(exc_kind(r1), site + ".fit_transform", exc_detail(r1))
            return r
        train_rows = fam.canon(r1, spec)
        test = spec["test"]
        s, out = call(F.transform_call, fam, est, spec, test)
        if s == "exc":
            r.fail(exc_kind(out), site + ".transform", exc_detail(out), **tags(name, spec, test))
            return r
        rows = fam.canon(out, spec)
        n_test = fam.n_items(test)
        matrix_like = not isinstance(train_rows[0] if train_rows else [], list) and name not in ("slidewin", "seqdiff")
        # (b) shape
        if fam.row_wise:
            if len(rows) != n_test:
                r.fail("row-count", site + ".transform", "%d rows for %d input items" % (len(rows), n_test), **tags(name, spec, test))
                return r
        else:
            if len(rows) != len(train_rows):
                r.fail("row-count", site + ".transform", "%d rows, the fitted model has %d" % (len(rows), len(train_rows)), **tags(name, spec, test))
                return r
        if matrix_like and train_rows and rows:
            w = len(train_rows[0])
            if any(len(x) != w for x in rows):
                r.fail("width", site + ".transform", "width %d, fixed at fit time as %d" % (len(rows[0]), w), **tags(name, spec, test))
                return r
            wd = fam.width(est)
            if wd is not None and wd != w and name not in ("ngram_cooc", "token_cooc", "timed_cooc", "multi_cooc", "tree_cooc"):
                r.fail("width", site + ".fit_transform", "fit_transform width %d but the fitted column space has %d columns" % (w, wd))
            if not all(np.isfinite(np.asarray(x, dtype=np.float64)).all() for x in rows):
                r.fail("nonfinite", site + ".transform", "non-finite values in the output", **tags(name, spec, test))
        # (c) co-occurrence cells on new data
        if name.endswith("_cooc") and name != "tree_cooc" and spec["extra"]["n_iter"] == 0 and spec["extra"]["epsilon"] == 0:
            from vv import cooc_common as cc
            from vv.ref import cooc as rc
            kind = name[:-5]
            mask = spec["case"].get("mask")
            tokd = cc.norm_dict(est.token_label_dictionary_)
            e = cc.expectation(kind, spec["case"], fitted_tokens=[t for t in tokd if t != mask], data=test)
            if not e.ambiguous and e.cells is not None and not e.vocab_errors:
                A = np.asarray(out.todense(), dtype=np.float64)
                bad = rc.compare(e.cells, A) if A.shape == (e.n_rows, e.n_cols * len(e.blocks)) else ("shape",)
                if bad is not None:
                    r.fail("cell", site + ".transform", "transform(X') differs from the reference count on X': %r" % (bad,),
                           multi_offset=False)
                r.label("cells-checked")
        if name == "tree_cooc":
            pass        # cells of transform are compared with the walk-count reference by C15
        # (d) row order by singletons
        if fam.row_wise and n_test >= 2:
            for i in sorted({0, n_test - 1, n_test // 2}):
                s, o1 = call(F.transform_call, fam, est, spec, fam.take(test, [i]))
                if s == "exc":
                    r.fail(exc_kind(o1), site + ".transform[singleton]", exc_detail(o1), **tags(name, spec, fam.take(test, [i])))
                    break
                msg = rows_equal(np, fam.canon(o1, spec)[:1], rows[i:i + 1], fam.exact, max(fam.rtol, 1e-6), max(fam.atol, 1e-9))
                if msg:
                    r.fail("row-order", site + ".transform", "row %d of transform(X') differs from transform([X'[%d]]): %s" % (i, i, msg),
                           **tags(name, spec, test))
                    break
        # (e) unseen vocabulary is ignored
        stripped = strip_unseen(name, spec, est, test)
        if stripped is not None:
            s, o2 = call(F.transform_call, fam, est, spec, stripped)
            if s == "exc":
                r.fail(exc_kind(o2), site + ".transform[stripped]", exc_detail(o2))
            else:
                msg = rows_equal(np, fam.canon(o2, spec), rows, fam.exact, fam.rtol, fam.atol)
                if msg:
                    r.fail("unseen-not-ignored", site + ".transform", "deleting the unseen tokens from X' changes the result: " + msg)
            if stripped != test:
                r.label("unseen-symbols")
        r.nontrivial = test != spec["train"]
        return r
    return check


def tags(name, spec, data):
    t = {}
    if name == "rowdenoise":
        t["empty_row"] = any(not any(row) for row in data)
    if name.startswith("wass") or name in ("sinkhorn",):
        t["n_rows"] = len(data["W"])
    return t


FAMILIES = {}
for _n, _q, _t in [("ngram", 400, 4000), ("skipgram", 200, 2000), ("lz", 200, 2000), ("bpe_sequences", 200, 2000), ("bpe_tokens", 100, 1000),
                   ("bpe_matrix", 200, 2000), ("hist", 200, 2000), ("kde", 150, 1500), ("distvec", 40, 300), ("edgelist", 300, 3000),
                   ("tree_cooc", 150, 1500), ("token_cooc", 120, 1500), ("timed_cooc", 100, 1200), ("multi_cooc", 100, 1200),
                   ("ngram_cooc", 100, 1200), ("wass_LOT_exact_spmatrix", 60, 600), ("wass_LOT_exact_lil", 50, 500),
                   ("wass_LOT_exact_generator", 40, 400), ("wass_LOT_sinkhorn_spmatrix", 40, 400),
                   ("wass_HeuristicLinearAlgebra_spmatrix", 80, 800), ("sinkhorn", 40, 400), ("approx", 80, 800)]:
    _f = F.get(_n)
    FAMILIES[_n] = Family(lambda tier, f=_f: f.strategy(tier), make_check(_n), {"quick": _q, "thorough": _t}, {"quick": 1, "thorough": 6})
