"""C03 - co-occurrence matrices equal the windowed, kernel-weighted count definition."""
from hypothesis import strategies as st

from vv import cooc_common as cc
from vv.core import Family, Result, call, exc_kind, exc_detail
from vv.gen import corpora, cooc as gc
from vv.ref import cooc as rc

RULE = ("Hypothesis draws a corpus (1-5 sequences of length 0-12 over 1-5 symbols, str or int tokens; timed: (token, timestamp) with "
        "non-decreasing timestamps at base 0 .. 2^31 and steps down to 1e-3; multiset: documents of 1-4 multisets of 1-3 tokens; "
        "n-gram: n in 1..3), 1-3 window specifications (radius 0-5, fixed/variable, before/after/directional, mix weight, kernel "
        "flat/harmonic/geometric with offset, normalize, power), normalize_windows, and light pruning in a third of the cases. Oracle: "
        "the naive reference vv.ref.cooc (per occurrence, per block, clipped window, closed-form weights, division by the total over "
        "all blocks), compared cell by cell through token_label_dictionary_ / column_label_dictionary_ with the float32 summation "
        "bound (n_events + 2) * 2^-23 * |ref| + 1e-7; the label dictionaries themselves must be the documented ones; for fixed radii "
        "without window normalisation 'before' must be the transpose of 'after'; timed: translating all timestamps by 2^k leaves the "
        "matrix unchanged and delta_mean_ is the mean consecutive difference. Non-trivial: a non-zero expected cell and (>= 2 "
        "sequences or a repeated token); distinct by SHA-1 of the case.")
ASSUMPTIONS = ["variable window radii: the library's variable_window_radii formula is taken as given and evaluated on independently computed float32 frequencies",
               "multiset kernels: the window of an element is the rest of its own multiset (distance 0) then the next/previous `radius` multisets; "
               "offset skips the first `offset` multisets (the undocumented offset semantics are recorded as finding F30 where the implementation disagrees)",
               "n_iter = 0, epsilon = 0, n_threads = 1 (EM and threading are C11 / C04)"]


@st.composite
def base_case(draw, kind, tier):
    big = tier == "thorough"
    max_len = 24 if big else 12
    c = draw(corpora.corpus(max_docs=5, max_len=max_len, max_alpha=5))
    if kind == "timed":
        base = draw(st.sampled_from([0.0, 1e3, 1e6, 1.6e9, 2.0 ** 31]))
        step = st.sampled_from([0.0, 2.0 ** -10, 0.5, 1.0, 1.0, 2.0, 3.5, 60.0])   # dyadic: exact at every base and shift
        docs = []
        for d in c["docs"]:
            t = base + draw(st.sampled_from([0.0, 5.0, 100.0]))
            out = []
            for tok in d:
                t = t + draw(step)
                out.append([tok, t])
            docs.append(out)
        c["docs"] = docs
        c["base"] = base
    elif kind == "multi":
        docs = []
        for d in c["docs"]:
            ms, i = [], 0
            while i < len(d):
                k = draw(st.integers(1, 3))
                ms.append(d[i:i + k])
                i += k
            if ms:
                docs.append(ms)
        if not docs:
            docs = [[[c["docs"][-1][0] if c["docs"][-1] else (corpora.STR_ALPHABET[0] if c["token_type"] == "str" else corpora.INT_ALPHABET[0])]]]
        c["docs"] = docs
    c["specs"] = draw(gc.window_specs(kind, max_k=4 if big else 3, max_radius=8 if big else 5))
    c["normalize_windows"] = draw(st.booleans())
    fd = cc.flat_docs(kind, c["docs"])
    c["prune"] = draw(corpora.prune_params(fd, c["token_type"], p_each=0.1)) if draw(st.sampled_from([False, False, True])) else {}
    if kind == "ngram":
        c["ngram_size"] = draw(st.sampled_from([1, 2, 2, 3]))
    # history: the estimator object may already have been fitted on another corpus (same tokens, other order / time scale)
    c["refit"] = draw(st.booleans())
    return c


def judge(kind, case, r, extra=None, site_suffix=""):
    """Fit, compare with the reference; returns (estimator, expectation, dense matrix) or None."""
    L = cc.lib()
    np = L["np"]
    site = "%sCooccurrenceVectorizer%s" % ({"token": "Token", "timed": "TimedToken", "multi": "MultiSet", "ngram": "Ngram"}[kind], site_suffix)
    s, est = call(cc.build, kind, case, extra)
    if s == "exc":
        r.fail(exc_kind(est), site + ".__init__", exc_detail(est))
        return None
    X = cc.lib_input(kind, case)
    if case.get("refit"):
        if kind == "timed":
            prior = [[(t, 3.0 * ts + 7.0) for t, ts in d] for d in reversed(X)]
        else:
            prior = list(reversed(X))
        if any(len(d) for d in prior):
            call(est.fit, prior)
    s, M = call(est.fit_transform, X)
    e0 = cc.expectation(kind, case)
    if s == "exc":
        empty_expected = (not e0.ambiguous and len(e0.index) == 0) or (kind == "ngram" and not e0.ambiguous and getattr(e0, "ngram_kept_empty", False))
        if isinstance(M, ValueError) and "dictionary is empty" in str(M):
            r.label("empty-vocabulary")
            if not e0.ambiguous and not empty_expected:
                r.fail("spurious-empty", site + ".fit_transform", "ValueError(empty) but the specification keeps %r" % sorted(e0.index, key=repr)[:5])
            return None
        if e0.ambiguous:
            r.label("ambiguous-vocabulary")
            return None
        if kind == "ngram" and not any(len(s_) >= case.get("ngram_size", 2) for s_ in e0.seqs):
            r.label("no-ngram-in-corpus")
            return None
        r.fail(exc_kind(M), site + ".fit_transform", exc_detail(M), multi_offset=kind == "multi" and any(sp.get("offset", 0) > 0 for sp in case["specs"]))
        return None
    tokd = cc.norm_dict(est.token_label_dictionary_)
    mask = case.get("mask")
    e = cc.expectation(kind, case, fitted_tokens=[t for t in tokd if t != mask])
    for kind_, msg in e.vocab_errors:
        r.fail(kind_, site + ".fit[vocabulary]", msg)
    if e.vocab_errors or e.ambiguous:
        if e.ambiguous:
            r.label("ambiguous-vocabulary")
        return None
    if tokd != e.index:
        r.fail("token-dictionary", site + ".fit", "token_label_dictionary_ %r, expected %r" % (tokd, e.index))
        return None
    if kind == "ngram":
        rowd = cc.norm_dict(est.ngram_label_dictionary_)
        if rowd != e.row_labels:
            r.fail("row-dictionary", site + ".fit", "ngram_label_dictionary_ %r, expected %r" % (rowd, e.row_labels))
            return None
    cold = cc.norm_dict(est.column_label_dictionary_)
    if cold != e.col_labels:
        r.fail("column-dictionary", site + ".fit", "column_label_dictionary_ %r, expected %r" % (sorted(cold.items(), key=lambda kv: kv[1])[:8], sorted(e.col_labels.items(), key=lambda kv: kv[1])[:8]))
        return None
    A = np.asarray(M.todense(), dtype=np.float64)
    want_shape = (e.n_rows, e.n_cols * len(e.blocks))
    if A.shape != want_shape:
        r.fail("shape", site + ".fit_transform", "shape %s, expected %s" % (A.shape, want_shape))
        return None
    if e.cells is None:
        r.label("delta-zero")
        return est, e, A
    bad = rc.compare(e.cells, A)
    if bad is not None:
        row, col, got, want, nev = bad
        inv_c = {v: k for k, v in e.col_labels.items()}
        inv_r = {v: k for k, v in e.row_labels.items()}
        r.fail("cell", site + ".fit_transform", "cell (%r, %r): got %r, definition gives %r from %d events; specs %r normalize_windows=%s"
               % (inv_r.get(row), inv_c.get(col), got, want, nev, case["specs"], case.get("normalize_windows")),
               multi_offset=kind == "multi" and any(sp.get("offset", 0) > 0 for sp in case["specs"]))
    if kind == "timed":
        dm = float(est.delta_mean_)
        if abs(dm - e.delta) > 1e-9 * max(1.0, abs(e.delta)):
            r.fail("delta-mean", site + ".fit", "delta_mean_ = %r, mean consecutive difference = %r" % (dm, e.delta),
                   has_empty=any(len(s_) == 0 for s_ in e.seqs))
    nz = any(v[0] > 0 for v in e.cells.values())
    flat = cc.flat_docs(kind, case["docs"])
    repeated = any(len(set(d)) < len(d) for d in flat)
    r.nontrivial = nz and (len(flat) >= 2 or repeated)
    return est, e, A


def make_check(kind):
    def check(case):
        L = cc.lib()
        np = L["np"]
        r = Result()
        r.label(*gc.spec_labels(case["specs"], case["normalize_windows"]))
        r.label("pruned:%s" % bool(case["prune"]), "tokens:" + case["token_type"], "refit:%s" % bool(case.get("refit")))
        if kind == "timed":
            r.label("base:%g" % case["base"])
        if kind == "ngram":
            r.label("n=%d" % case["ngram_size"])
        out = judge(kind, case, r)
        if out is None or r.failures:
            return r
        est, e, A = out
        specs = case["specs"]
        # with fixed radii and no window normalisation the before block is the transpose of the after block
        if kind in ("token", "timed") and not case["normalize_windows"] and len(specs) == 1 and specs[0]["window"] == "fixed" \
                and not specs[0].get("normalize") and e.nullified is None:
            c2 = dict(case, specs=[dict(specs[0], orientation="directional")])
            r2 = Result()
            o2 = judge(kind, c2, r2, site_suffix="[directional]")
            r.failures.extend(r2.failures)
            if o2 is not None and not r2.failures:
                D = o2[2]
                n = e.n_cols
                if not np.allclose(D[:, :n], D[:, n:].T, rtol=1e-6, atol=1e-7):
                    r.fail("before-after-transpose", "%s.fit_transform" % type(est).__name__, "the 'before' block is not the transpose of the 'after' block")
                r.label("transpose-checked")
        # timed: translating every timestamp leaves the matrix unchanged
        if kind == "timed" and e.cells is not None:
            for shift in (2.0 ** 20, 2.0 ** 31):
                c3 = dict(case, docs=[[[t, ts + shift] for t, ts in d] for d in case["docs"]])
                s, est3 = call(cc.build, kind, c3)
                s, M3 = call(est3.fit_transform, cc.lib_input(kind, c3))
                if s == "exc":
                    r.fail(exc_kind(M3), "TimedTokenCooccurrenceVectorizer.fit_transform[shifted]", exc_detail(M3))
                    break
                A3 = np.asarray(M3.todense(), dtype=np.float64)
                # timestamps are dyadic, so the shifted differences are exactly the same numbers
                if A3.shape != A.shape or not np.allclose(A3, A, rtol=1e-6, atol=1e-7):
                    i, j = np.argwhere(~np.isclose(A3, A, rtol=1e-6, atol=1e-7))[0] if A3.shape == A.shape else (0, 0)
                    r.fail("translation", "TimedTokenCooccurrenceVectorizer.fit_transform", "shifting all timestamps by %g changed cell (%d, %d): %r -> %r"
                           % (shift, i, j, A[i, j] if A3.shape == A.shape else None, A3[i, j] if A3.shape == A.shape else None))
                    break
        return r
    return check


def fam(kind, quick, thorough):
    return Family(lambda tier, kind=kind: base_case(kind, tier), make_check(kind), {"quick": quick, "thorough": thorough},
                  {"quick": 4, "thorough": 16})


FAMILIES = {
    "token": fam("token", 320, 4000),
    "timed": fam("timed", 240, 3000),
    "multi": fam("multi", 240, 3000),
    "ngram": fam("ngram", 240, 3000),
}
