"""C12 - each output row depends only on its own input item and the fitted model."""
import copy

from hypothesis import strategies as st

from vv import fam as F
from vv.core import Family, Result, call, exc_kind, exc_detail
from vv.props.c02 import rows_equal

RULE = ("A fitted row-wise estimator (Ngram, Skipgram, LZ, BPE x 3, Histogram, KDE, Distribution, Wasserstein x methods x input formats "
        "with small memory_size / sinkhorn chunk sizes, Sinkhorn, ApproximateWasserstein, InformationWeight, RowDenoising, "
        "CountFeatureCompression, SlidingWindow, SequentialDifference) and a list of 2-12 items built from the generated transform and "
        "training items, then a drawn plan: split points, a permutation, indices to duplicate. Oracle: transform(A + B) == "
        "vstack(transform(A), transform(B)); transform(perm(X)) == perm(transform(X)); duplicated items give identical rows. Exact for "
        "integer outputs, rtol 1e-6 otherwise, rtol 1e-4 / atol 1e-6 for Sinkhorn-based outputs. The check is run in shards with "
        "NUMBA_NUM_THREADS 1, 4 and 16 for the prange kernels. Non-trivial: the plan moves at least one item to a different batch, chunk "
        "or position; distinct by SHA-1 of the case.")
ASSUMPTIONS = ["NaN outputs (InformationWeightTransformer with degenerate weights, finding F27 of C17) are compared position-wise as equal: C12 is about batch independence",
               "Sinkhorn iterations share one stopping test per chunk; converged iterates differ at the 1e-9 level (tolerance 1e-4)",
               "all-zero distributions are not generated here (recorded finding F26 territory is probed separately by the zero_row family)"]


def with_plan(fam):
    @st.composite
    def s(draw, tier):
        spec = draw(fam.strategy(tier))
        n_tr, n_te = fam.n_items(spec["train"]), fam.n_items(spec["test"])
        pool = [("test", i) for i in range(n_te)] + [("train", i) for i in range(n_tr)]
        k = draw(st.integers(2, min(12, max(2, len(pool)))))
        picks = draw(st.lists(st.sampled_from(pool), min_size=k, max_size=k))
        spec["plan"] = {"items": [list(p) for p in picks],
                        "split": draw(st.integers(1, k - 1)),
                        "perm": list(draw(st.permutations(list(range(k)))))}
        return spec
    return s


def gather(fam, spec, picks):
    """build one data object out of (source, index) picks"""
    if isinstance(spec["test"], dict):          # distributions over shared vectors
        W = [spec[src]["W"][i] for src, i in picks]
        return {"W": W, "V": spec["test"]["V"]}
    return [spec[src][i] for src, i in picks]


def make_check(name):
    def check(spec):
        fam = F.get(name)
        np = F.lib()["np"]
        r = Result()
        r.label("family:" + name)
        site = name
        tol = (max(fam.rtol, 1e-4), max(fam.atol, 1e-6)) if ("sinkhorn" in name.lower()) else (max(fam.rtol, 1e-6), max(fam.atol, 1e-9))
        s, est = call(fam.make, copy.deepcopy(spec))
        if s == "exc":
            r.fail(exc_kind(est), site + ".__init__", exc_detail(est))
            return r
        s, _ = call(F.fit_call, fam, est, spec, "fit")
        if s == "exc":
            if isinstance(_, (ValueError, NotImplementedError)):
                r.label("fit-rejected")
                return r
            r.fail(exc_kind(_), site + ".fit", exc_detail(_))
            return r
        plan = spec["plan"]
        picks = [tuple(p) for p in plan["items"]]
        full = gather(fam, spec, picks)

        def tr(data, what):
            s_, o = call(F.transform_call, fam, est, spec, data)
            if s_ == "exc":
                r.fail(exc_kind(o), site + ".transform[%s]" % what, exc_detail(o), n_items=fam.n_items(data))
                return None
            return fam.canon(o, spec)
        base = tr(full, "whole")
        if base is None:
            return r
        if len(base) != len(picks):
            r.fail("row-count", site + ".transform", "%d rows for %d items" % (len(base), len(picks)))
            return r
        k = plan["split"]
        a, b = tr(gather(fam, spec, picks[:k]), "first batch"), tr(gather(fam, spec, picks[k:]), "second batch")
        if a is not None and b is not None:
            msg = rows_equal(np, a + b, base, fam.exact, *tol, equal_nan=True)
            if msg:
                r.fail("batch-split", site + ".transform", "transform(A + B) != vstack(transform(A), transform(B)) with |A| = %d: %s" % (k, msg), **ptags(name, spec))
        perm = plan["perm"]
        p = tr(gather(fam, spec, [picks[i] for i in perm]), "permuted")
        if p is not None:
            msg = rows_equal(np, p, [base[i] for i in perm], fam.exact, *tol, equal_nan=True)
            if msg:
                r.fail("permutation", site + ".transform", "transform(perm(X)) != perm(transform(X)): %s" % msg, **ptags(name, spec))
        seen = {}
        for i, pk in enumerate(picks):
            if pk in seen:
                msg = rows_equal(np, [base[i]], [base[seen[pk]]], fam.exact, *tol, equal_nan=True)
                if msg:
                    r.fail("duplicate-rows", site + ".transform", "items %d and %d are identical but their rows differ: %s" % (seen[pk], i, msg), **ptags(name, spec))
                    break
                r.label("has-duplicate")
            else:
                seen[pk] = i
        r.nontrivial = perm != sorted(perm) or 0 < k < len(picks)
        return r
    return check


def ptags(name, spec):
    p = spec.get("params") or {}
    return {"chunk": p.get("sinkhorn_chunk_size", p.get("chunk_size")), "memory": p.get("memory_size")}


def make_zero_row_check(name):
    """an all-zero distribution inside a batch must not change the rows of the other distributions"""
    def check(spec):
        fam = F.get(name)
        np = F.lib()["np"]
        r = Result()
        r.label("family:" + name)
        site = name
        s, est = call(fam.make, copy.deepcopy(spec))
        s, _ = call(F.fit_call, fam, est, spec, "fit")
        if s == "exc":
            r.label("fit-rejected")
            return r
        test = spec["test"]
        m = len(test["V"])
        pos = spec["plan"]["split"] % (len(test["W"]) + 1)
        withzero = {"W": test["W"][:pos] + [[0] * m] + test["W"][pos:], "V": test["V"]}
        s, a = call(F.transform_call, fam, est, spec, test)
        s2, b = call(F.transform_call, fam, est, spec, withzero)
        if s == "exc" or s2 == "exc":
            e = a if s == "exc" else b
            r.fail(exc_kind(e), site + ".transform[zero row]", exc_detail(e))
            return r
        A, B = fam.canon(a, spec), fam.canon(b, spec)
        B_others = B[:pos] + B[pos + 1:]
        msg = rows_equal(np, B_others, A, False, 1e-4, 1e-6, equal_nan=True)
        if msg:
            r.fail("zero-row-contaminates", site + ".transform", "an all-zero distribution at position %d changed the rows of the other distributions: %s" % (pos, msg))
        r.nontrivial = len(test["W"]) >= 2
        return r
    return check


ROW_WISE = [("ngram", 300, 3000), ("skipgram", 150, 1500), ("lz", 200, 2000), ("bpe_sequences", 200, 2000), ("bpe_tokens", 100, 1000),
            ("bpe_matrix", 150, 1500), ("hist", 200, 2000), ("kde", 150, 1500), ("distvec", 40, 300), ("slidewin", 50, 500), ("seqdiff", 30, 300),
            ("iw", 200, 2000), ("rowdenoise", 200, 2000), ("cfc", 200, 2000), ("wass_LOT_exact_spmatrix", 60, 600),
            ("wass_LOT_exact_lil", 50, 500), ("wass_LOT_exact_generator", 40, 400), ("wass_LOT_sinkhorn_spmatrix", 60, 600),
            ("wass_HeuristicLinearAlgebra_spmatrix", 80, 800), ("sinkhorn", 60, 600), ("approx", 80, 800)]
NB = ["1", "4", "16"]
FAMILIES = {}
for _i, (_n, _q, _t) in enumerate(ROW_WISE):
    _f = F.get(_n)
    FAMILIES[_n] = Family(with_plan(_f), make_check(_n), {"quick": _q, "thorough": _t}, {"quick": 1, "thorough": 6},
                          env={"NUMBA_NUM_THREADS": NB[_i % 3]})
# the prange kernels (BPE encode_all, information weights, pairwise distances) additionally under the other pool sizes
for _n in ("bpe_sequences", "iw", "wass_LOT_exact_spmatrix"):
    for _nb in NB:
        _f = F.get(_n)
        FAMILIES["%s@threads=%s" % (_n, _nb)] = Family(with_plan(_f), make_check(_n), {"quick": 60, "thorough": 600}, {"quick": 1, "thorough": 3},
                                                       env={"NUMBA_NUM_THREADS": _nb})

for _n in ("wass_LOT_exact_spmatrix", "wass_LOT_sinkhorn_spmatrix", "sinkhorn"):
    _f = F.get(_n)
    FAMILIES["%s@zero_row" % _n] = Family(with_plan(_f), make_zero_row_check(_n), {"quick": 50, "thorough": 500}, {"quick": 1, "thorough": 3})

# hundreds of items: a block holding more rows than one internal chunk (256) - shared with C08 (a row embedded alone must equal the
# same row inside the collection, whatever memory_size says)
from vv.props import c08 as _c08
FAMILIES["wass_LOT_exact@many_rows"] = Family(_c08.many_rows_cases, _c08.check_many_rows, {"quick": 10, "thorough": 120}, {"quick": 1, "thorough": 4})
