"""C05 - the learned vocabulary is exactly the tokens meeting every pruning constraint."""
import random

from hypothesis import strategies as st

from vv.core import Family, Result, call, exc_kind, exc_detail
from vv.gen import corpora
from vv.ref import vocab

RULE = ("Hypothesis draws a small corpus (1-6 symbols, str or int tokens, empty documents allowed) and any subset of the pruning "
        "options with bounds placed on / next to the actual counts, and runs it through preprocess_token_sequences, NgramVectorizer "
        "(n=1 and the second-stage n-gram pruning for n=2,3), TokenCooccurrenceVectorizer, and the tree / multiset / timed "
        "preprocessors. Oracle: vv.ref.vocab (integers and Fractions; frequency bounds within 1e-6 relative are accepted either way; "
        "max_unique_tokens as a validity predicate), index order = sorted token order, invariance under shuffling documents and "
        "tokens, a supplied dictionary comes back unchanged. Exhaustive part: every 1 <= count < total <= N two-token corpus with "
        "min_occurrences = count and max_occurrences = count. Non-trivial: at least one token removed and one kept, or a count equal "
        "to a bound; distinct by SHA-1 of the case.")
ASSUMPTIONS = ["frequency-bound ties (|count/total - bound| <= 1e-6 relative) may legitimately fall either way",
               "the documented top-k rule keeps every token strictly more frequent than the (k+1)-th most frequent eligible token"]

_L = {}


def lib():
    if not _L:
        import numpy as np
        import scipy.sparse
        from vectorizers import preprocessing, NgramVectorizer, TokenCooccurrenceVectorizer
        _L.update(np=np, sp=scipy.sparse, pre=preprocessing, Ngram=NgramVectorizer, Tok=TokenCooccurrenceVectorizer)
    return _L


def pre_kwargs(prune):
    kw = dict(prune)
    if "excluded_tokens" in kw:
        kw["ignored_tokens"] = set(kw.pop("excluded_tokens"))
    return kw


def est_kwargs(prune):
    kw = dict(prune)
    if "excluded_tokens" in kw:
        kw["excluded_tokens"] = set(kw["excluded_tokens"])
    return kw


def judge(r, site, got_dict, items_by_doc, prune, mask=None, use_exclusions=True):
    """Compare a learned dictionary with the specification."""
    status, cnt = vocab.classify(items_by_doc, prune, use_exclusions)
    kept = [t for t in got_dict if t != mask] if mask is not None else list(got_dict)
    for kind, msg in vocab.check_kept(kept, status, cnt, prune.get("max_unique_tokens")):
        r.fail(kind, site, msg)
    want_order = sorted(kept)
    idx = [got_dict[t] for t in want_order]
    if idx != list(range(len(want_order))):
        r.fail("index-order", site, "indices are not 0..n-1 in sorted token order: %r" % (sorted(got_dict.items(), key=lambda kv: kv[1])[:8],))
    if mask is not None:
        if got_dict.get(mask) != len(kept):
            r.fail("mask-index", site, "mask entry %r, expected index %d" % (got_dict.get(mask), len(kept)))
    removed = sum(1 for t in status if t not in set(kept))
    bounds_hit = any(
        prune.get(k) is not None and prune[k] in cnt.values() for k in ("min_occurrences", "max_occurrences"))
    if (removed and kept) or bounds_hit:
        r.nontrivial = True
    if any(s == "either" for s in status.values()):
        r.label("freq-tie")
    if prune.get("max_unique_tokens") is not None:
        r.label("top-k")
    return status, cnt, kept


def shuffled(docs, seed):
    rnd = random.Random(seed)
    d2 = [list(d) for d in docs]
    for d in d2:
        rnd.shuffle(d)
    rnd.shuffle(d2)
    return d2


# -------------------------------------------------------------------------------------------
@st.composite
def pre_cases(draw, tier):
    big = tier == "thorough"
    c = draw(corpora.corpus_and_prune(max_docs=8 if big else 5, max_len=16 if big else 10, p_each=0.3))
    c["mask"] = draw(st.sampled_from([None, None, "__M__"]))
    c["shuffle_seed"] = draw(st.integers(0, 10 ** 6))
    # history: the same parameter objects are first used to learn from another corpus over the same alphabet
    c["prior_docs"] = None
    if draw(st.booleans()):
        alpha = sorted({t for d in c["docs"] for t in d}, key=repr)
        c["prior_docs"] = draw(st.lists(st.lists(st.sampled_from(alpha), max_size=6), min_size=1, max_size=4))
    c["given_dict"] = draw(st.sampled_from([False] * 7 + [True]))
    if c["given_dict"]:
        c["prune"] = {}
    return c


def check_pre(case):
    L = lib()
    r = Result()
    docs, prune, mask = case["docs"], case["prune"], case["mask"]
    site = "preprocess_token_sequences"
    for k in prune:
        r.label("opt:" + k)
    if case["given_dict"]:
        toks = sorted({t for d in docs for t in d})
        given = {t: i for i, t in enumerate(toks[:-1] or toks)}      # possibly missing the largest token
        snapshot = dict(given)
        s, out = call(L["pre"].preprocess_token_sequences, docs, dict(given), masking=mask)
        if s == "exc":
            r.fail(exc_kind(out), site + "[given]", exc_detail(out))
            return r
        got = dict(out[1])
        want = dict(snapshot)
        if mask is not None:
            want[mask] = len(snapshot)
        if got != want:
            r.fail("given-dictionary-changed", site + "[given]", "supplied %r, returned %r" % (snapshot, got))
        r.nontrivial = len(toks) > 1
        r.label("given-dict")
        return r
    kw = pre_kwargs(prune)
    if case.get("prior_docs") and any(case["prior_docs"]):
        r.label("relearn")
        call(L["pre"].preprocess_token_sequences, case["prior_docs"], None, masking=mask, **kw)
    s, out = call(L["pre"].preprocess_token_sequences, docs, None, masking=mask, **kw)
    if s == "exc":
        r.fail(exc_kind(out), site, exc_detail(out))
        return r
    got = dict(out[1])
    judge(r, site, got, docs, prune, mask)
    # order independence
    s2, out2 = call(L["pre"].preprocess_token_sequences, shuffled(docs, case["shuffle_seed"]), None, masking=mask,
                    **pre_kwargs(prune))
    if s2 == "exc":
        r.fail(exc_kind(out2), site + "[shuffled]", exc_detail(out2))
    elif dict(out2[1]) != got:
        r.fail("order-dependent", site, "dictionary changed after shuffling documents/tokens: %r vs %r" % (got, dict(out2[1])))
    # inverse dictionary consistent
    inv = out[2]
    if {v: k for k, v in got.items()} != dict(inv):
        r.fail("inverse-dictionary", site, "inverse dictionary is not the inverse of the dictionary")
    return r


# -------------------------------------------------------------------------------------------
@st.composite
def ngram_cases(draw, tier):
    n = draw(st.sampled_from([1, 1, 2, 2, 3]))
    c = draw(corpora.corpus(max_docs=5, max_len=10 if n == 1 else 14, max_alpha=4 if n == 1 else 3))
    c["ngram_size"] = n
    c["prior_docs"] = None
    if draw(st.booleans()):
        alpha = sorted({t for d in c["docs"] for t in d}, key=repr)
        c["prior_docs"] = draw(st.lists(st.lists(st.sampled_from(alpha), max_size=8), min_size=1, max_size=4))
    if n == 1:
        c["prune"] = draw(corpora.prune_params(c["docs"], c["token_type"]))
    else:
        # second stage: bounds are applied to tokens first and to n-grams afterwards; draw bounds around n-gram counts
        grams = [[tuple(d[i:i + n]) for i in range(len(d) - n + 1)] for d in c["docs"]]
        if not any(grams):
            grams = [[("x",)]]
        c["prune"] = draw(corpora.prune_params(grams, "tuple", allow_regex=False, allow_freq=True, p_each=0.12))
        c["prune"].pop("excluded_tokens", None)
        if draw(st.sampled_from([True, True, True, False])):
            # upper bounds sized for n-gram counts remove nearly every token at the token stage
            for k in [k for k in c["prune"] if k.startswith("max_") and k != "max_unique_tokens"]:
                del c["prune"][k]
        # keep the token stage neutral-ish: only options that exist at both stages
    return c


def check_ngram(case):
    L = lib()
    r = Result()
    docs, prune, n = case["docs"], case["prune"], case["ngram_size"]
    site = "NgramVectorizer.fit[n=%d]" % n
    for k in prune:
        r.label("opt:" + k)
    r.label("n=%d" % n)
    est = L["Ngram"](ngram_size=n, **est_kwargs(prune))
    if case.get("prior_docs") and any(case["prior_docs"]):
        r.label("refit")
        call(est.fit, case["prior_docs"])        # the same estimator (and parameter objects) learns from another corpus first
    s, out = call(est.fit, docs)
    if n > 1:
        # precondition (corrections log): a corpus in which no n-gram exists after token pruning has no n-gram
        # vocabulary to learn; occurrence bounds are then relative to a total of zero.  Not judged.
        st1, c1 = vocab.classify(docs, prune)
        k1 = vocab.resolve(st1, c1, prune.get("max_unique_tokens"))
        possible = k1 if k1 is not None else {t for t, v in st1.items() if v != "drop"}
        if not any(len([t for t in d if t in possible]) >= n for d in docs):
            r.label("no-ngram-in-corpus")
            return r
        if k1 is None and s == "exc":
            r.label("stage1-ambiguous")
            return r
    if s == "exc":
        r.fail(exc_kind(out), site, exc_detail(out))
        return r
    got = dict(est.column_label_dictionary_)
    if n == 1:
        judge(r, site, got, docs, prune)
        return r
    # stage 1: tokens
    status, cnt = vocab.classify(docs, prune)
    kept1 = vocab.resolve(status, cnt, prune.get("max_unique_tokens"))
    if kept1 is None:
        r.label("stage1-ambiguous")
        return r
    seqs = [[t for t in d if t in kept1] for d in docs]
    grams = [[tuple(d[i:i + n]) for i in range(len(d) - n + 1)] for d in seqs]
    if not any(grams):
        # nothing to count: the estimator may produce an empty dictionary
        if got:
            r.fail("kept-unknown", site, "no n-gram exists but dictionary is %r" % got)
        return r
    status2, cnt2 = vocab.classify(grams, prune, use_exclusions=False)
    for kind, msg in vocab.check_kept(list(got), status2, cnt2, prune.get("max_unique_tokens")):
        r.fail(kind, site + "[stage2]", msg)
    want_order = sorted(got)
    if [got[g] for g in want_order] != list(range(len(got))):
        r.fail("index-order", site + "[stage2]", "n-gram indices not 0..n-1 in sorted order: %r" % (sorted(got.items(), key=lambda kv: kv[1])[:6],))
    removed = [g for g in status2 if g not in got]
    if removed and got:
        r.nontrivial = True
    return r


# -------------------------------------------------------------------------------------------
@st.composite
def cooc_cases(draw, tier):
    c = draw(corpora.corpus_and_prune(max_docs=4, max_len=8, max_alpha=5, p_each=0.18))
    c["mask"] = draw(st.sampled_from([None, None, "__M__"]))
    return c


def check_cooc(case):
    L = lib()
    r = Result()
    docs, prune, mask = case["docs"], case["prune"], case["mask"]
    site = "TokenCooccurrenceVectorizer.fit"
    for k in prune:
        r.label("opt:" + k)
    est = L["Tok"](window_radii=1, mask_string=mask, **est_kwargs(prune))
    s, out = call(est.fit, docs)
    status, cnt = vocab.classify(docs, prune)
    may = {t for t, v in status.items() if v != "drop"}
    must = {t for t, v in status.items() if v == "keep"}
    if s == "exc":
        if isinstance(out, ValueError) and "Token dictionary is empty" in str(out) and mask is None:
            r.label("empty-vocabulary")
            if any(v == "either" for v in status.values()):
                # a frequency tie leaves the eligible set itself ambiguous (and with it the top-k cut): not judged
                r.label("freq-tie")
                return r
            if must and not (prune.get("max_unique_tokens") is not None):
                r.fail("spurious-empty", site, "ValueError(empty) although %r meet every constraint" % sorted(must, key=repr)[:5])
            elif must:
                # top-k with ties can legitimately empty the vocabulary (strictly-greater rule)
                ranked = sorted((cnt[t] for t in must), reverse=True)
                k = prune["max_unique_tokens"]
                if len(must) <= k or ranked[0] > ranked[min(k, len(ranked) - 1)]:
                    r.fail("spurious-empty", site, "ValueError(empty) although the most frequent eligible token is unique")
            r.nontrivial = True
            return r
        r.fail(exc_kind(out), site, exc_detail(out))
        return r
    got = dict(est.token_label_dictionary_)
    if mask is None and not got:
        r.fail("empty-no-error", site, "empty vocabulary without the documented ValueError")
    judge(r, site, got, docs, prune, mask)
    return r


# -------------------------------------------------------------------------------------------
@st.composite
def variant_cases(draw, tier):
    kind = draw(st.sampled_from(["tree", "multi", "timed"]))
    c = draw(corpora.corpus(max_docs=4, max_len=7, max_alpha=5, allow_empty_first=False))
    if kind in ("multi", "timed"):
        c["docs"] = [d for d in c["docs"] if d] or [[corpora.STR_ALPHABET[0] if c["token_type"] == "str" else corpora.INT_ALPHABET[0]]]
    if kind == "tree":
        c["docs"] = [d for d in c["docs"] if d] or [[corpora.STR_ALPHABET[0] if c["token_type"] == "str" else corpora.INT_ALPHABET[0]]]
        c["prune"] = draw(corpora.prune_params(c["docs"], c["token_type"], allow_top=False,
                                               doc_keys=("min_tree_occurrences", "max_tree_occurrences",
                                                         "min_tree_frequency", "max_tree_frequency")))
    else:
        c["prune"] = draw(corpora.prune_params(c["docs"], c["token_type"]))
    c["kind"] = kind
    c["split"] = draw(st.integers(1, 3))
    c["mask"] = draw(st.sampled_from([None, "__M__"]))
    return c


TREE_KEYMAP = {"min_tree_occurrences": "min_document_occurrences", "max_tree_occurrences": "max_document_occurrences",
               "min_tree_frequency": "min_document_frequency", "max_tree_frequency": "max_document_frequency"}


def check_variant(case):
    L = lib()
    np, sp = L["np"], L["sp"]
    r = Result()
    docs, prune, kind, mask = case["docs"], case["prune"], case["kind"], case["mask"]
    r.label("kind:" + kind)
    for k in prune:
        r.label("opt:" + k)
    if kind == "tree":
        site = "preprocess_tree_sequences"
        trees = []
        for d in docs:
            n = len(d)
            adj = sp.csr_matrix((np.ones(max(n - 1, 0)), (np.arange(max(n - 1, 0)), np.arange(1, n))), shape=(n, n))
            trees.append((adj, np.array(d)))
        flat = [t for d in docs for t in d]
        s, out = call(L["pre"].preprocess_tree_sequences, trees, flat, masking=mask, **pre_kwargs(prune))
        spec = {TREE_KEYMAP.get(k, k): v for k, v in prune.items()}
        items = docs
    elif kind == "multi":
        site = "preprocess_multi_token_sequences"
        k = case["split"]
        mdocs = [[d[i:i + k] for i in range(0, len(d), k)] for d in docs]
        s, out = call(L["pre"].preprocess_multi_token_sequences, mdocs, None, masking=mask, **pre_kwargs(prune))
        spec, items = prune, docs
    else:
        site = "preprocess_timed_token_sequences"
        tdocs = [[(t, float(i)) for i, t in enumerate(d)] for d in docs]
        if mask is None:
            # a sequence emptied by pruning is a separate finding (C03/C01); keep C05 about the vocabulary
            pass
        s, out = call(L["pre"].preprocess_timed_token_sequences, tdocs, None, masking=mask, **pre_kwargs(prune))
        spec, items = prune, docs
    if s == "exc":
        r.fail(exc_kind(out), site, exc_detail(out))
        return r
    got = {(k.item() if hasattr(k, "item") else k): v for k, v in dict(out[1]).items()}
    judge(r, site, got, items, spec, mask)
    return r


# -------------------------------------------------------------------------------------------
def boundary_cases(tier):
    N = 1200 if tier == "thorough" else 300
    for total in range(2, N + 1):
        yield {"total": total}


def check_boundary(case):
    """All counts for one total: corpus a*count + b*(total-count); min_occurrences=count and max_occurrences=count keep 'a'."""
    L = lib()
    r = Result()
    total = case["total"]
    pre = L["pre"].preprocess_token_sequences
    r.nontrivial = True
    for count in range(1, total):
        docs = [["a"] * count + ["b"] * (total - count)]
        for key in ("min_occurrences", "max_occurrences"):
            got = pre(docs, None, **{key: count})[1]
            if "a" not in got:
                r.fail("bound-equality", "preprocess_token_sequences[%s]" % key,
                       "token occurring exactly %d times out of %d dropped with %s=%d" % (count, total, key, count),
                       count=count, total=total)
                return r
            other = total - count
            want_b = (other >= count) if key == "min_occurrences" else (other <= count)
            if ("b" in got) != want_b:
                r.fail("bound-side", "preprocess_token_sequences[%s]" % key,
                       "token occurring %d times out of %d: kept=%s with %s=%d" % (other, total, "b" in got, key, count))
                return r
    return r


FAMILIES = {
    "preprocess": Family(pre_cases, check_pre, {"quick": 2000, "thorough": 40000}, {"quick": 4, "thorough": 16}),
    "ngram": Family(ngram_cases, check_ngram, {"quick": 1200, "thorough": 24000}, {"quick": 4, "thorough": 16}),
    "tokcooc": Family(cooc_cases, check_cooc, {"quick": 400, "thorough": 8000}, {"quick": 4, "thorough": 16}),
    "variants": Family(variant_cases, check_variant, {"quick": 900, "thorough": 16000}, {"quick": 3, "thorough": 16}),
    "boundary": Family(check=check_boundary, enumerate_cases=boundary_cases, exhaustive_name="totals_2_to_N_each_with_all_counts_1_to_total-1",
                       examples={"quick": 0, "thorough": 0}, shards={"quick": 4, "thorough": 16}),
}
