"""C11 - EM refinement and epsilon thresholding follow the documented procedure."""
from hypothesis import strategies as st

from vv import cooc_common as cc
from vv.core import Family, Result, call, exc_kind, exc_detail
from vv.gen import cooc as gc
from vv.props import c03
from vv.ref import em as rem

RULE = ("C03 corpora and window/kernel settings (token, timed, multiset, n-gram vectorizers) x n_iter 0-3 x epsilon in {0} or 12 generic "
        "values in (0, 0.6) x n_threads 1-3. Oracle: vv.ref.em in dense float64 started from the C03 reference matrix: L1-normalise "
        "columns, zero entries < epsilon, then per iteration every occurrence distributes one unit over its window cells in proportion "
        "to (mix x kernel weight) x current value, re-normalise, re-threshold; compared with rtol 1e-3 / atol 1e-5; cases in which a "
        "value comes within 1e-4 (relative) of epsilon at a thresholding step are discarded and counted. Invariants asserted regardless: "
        "entries in [0, 1], column sums <= 1 (= 1 for non-empty columns when epsilon = 0), support inside the n_iter=0 support. "
        "Non-trivial: n_iter >= 1 and some column with >= 2 non-zero cells; the sub-class 'a cell removed by the threshold is looked up "
        "by a later iteration' is labelled; distinct by SHA-1 of the case.")
ASSUMPTIONS = ["float32 accumulation inside the kernels: rtol 1e-3, atol 1e-5 against the float64 reference",
               "multiset kernels with offset >= 1 are not generated here (finding F30 belongs to C03)"]

EPS = [0.0731, 0.013, 0.21, 0.137, 0.0457, 0.33, 0.0911, 0.27, 0.0193, 0.41, 0.117, 0.57]


@st.composite
def cases(draw, kind, tier):
    c = draw(c03.base_case(kind, tier))
    if kind == "multi":
        for sp in c["specs"]:
            sp["offset"] = 0
    c["n_iter"] = draw(st.sampled_from([1, 2, 1, 3, 0]))
    c["epsilon"] = draw(st.sampled_from(EPS[:6] + [0.0] * 5 + EPS[6:]))
    c["n_threads"] = draw(st.sampled_from([1, 1, 2, 3]))
    return c


def make_check(kind):
    def check(case):
        L = cc.lib()
        np = L["np"]
        r = Result()
        site = "%sCooccurrenceVectorizer" % {"token": "Token", "timed": "TimedToken", "multi": "MultiSet", "ngram": "Ngram"}[kind]
        r.label("n_iter:%d" % case["n_iter"], "epsilon:%s" % ("0" if case["epsilon"] == 0 else ">0"), "n_threads:%d" % case["n_threads"],
                "kernel:" + case["specs"][0]["kernel"])
        extra = {"n_iter": case["n_iter"], "epsilon": case["epsilon"], "n_threads": case["n_threads"]}
        s, est = call(cc.build, kind, case, extra)
        if s == "exc":
            r.fail(exc_kind(est), site + ".__init__", exc_detail(est))
            return r
        X = cc.lib_input(kind, case)
        if case.get("refit"):
            # history: the estimator object was fitted on another corpus (same tokens, other order / time scale) before
            r.label("refit")
            prior = [[(t, 3.0 * ts + 7.0) for t, ts in d] for d in reversed(X)] if kind == "timed" else list(reversed(X))
            if any(len(d) for d in prior):
                call(est.fit, prior)
        s, M = call(est.fit_transform, X)
        e = cc.expectation(kind, case)
        if e.ambiguous:
            r.label("ambiguous-vocabulary")
            return r
        if s == "exc":
            if isinstance(M, ValueError) and "dictionary is empty" in str(M):
                r.label("empty-vocabulary")
                return r
            if kind == "ngram" and not any(len(s_) >= case.get("ngram_size", 2) for s_ in e.seqs):
                r.label("no-ngram-in-corpus")
                return r
            r.fail(exc_kind(M), site + ".fit_transform", exc_detail(M))
            return r
        if e.cells is None:
            r.label("delta-zero")
            return r
        A = np.asarray(M.todense(), dtype=np.float64)
        shape = (e.n_rows, e.n_cols * len(e.blocks))
        if A.shape != shape:
            r.fail("shape", site + ".fit_transform", "shape %s, expected %s" % (A.shape, shape))
            return r
        C, _ = cc.cell_matrix(np, e.cells, shape)
        if case["n_iter"] == 0 and case["epsilon"] == 0:
            r.label("plain-counts")
            return r            # C03 territory
        # invariants
        if (A < 0).any() or (A > 1 + 1e-6).any():
            r.fail("range", site + ".fit_transform", "entries outside [0, 1]: min %r max %r" % (A.min(), A.max()))
        cs = A.sum(axis=0)
        if (cs > 1 + 1e-5).any():
            r.fail("column-sum", site + ".fit_transform", "a column sums to %r > 1" % cs.max())
        if ((A != 0) & (C == 0)).any():
            i, j = np.argwhere((A != 0) & (C == 0))[0]
            r.fail("support-grew", site + ".fit_transform", "cell (%d, %d) = %r is non-zero but no co-occurrence event exists for it" % (i, j, A[i, j]))
        want, ambiguous = rem.run(C, e.occurrences, case["n_iter"], case["epsilon"])
        if ambiguous:
            r.label("threshold-ambiguous")
            r.inconclusive = "value within 1e-4 of epsilon"
            return r
        if case["epsilon"] == 0:
            nonempty = want.sum(axis=0) > 0
            if not np.allclose(cs[nonempty], 1.0, atol=1e-4):
                r.fail("column-sum", site + ".fit_transform", "non-empty columns must sum to 1 when epsilon = 0: %s" % cs[nonempty][:6])
        if not np.allclose(A, want, rtol=1e-3, atol=1e-5):
            i, j = np.argwhere(~np.isclose(A, want, rtol=1e-3, atol=1e-5))[0]
            r.fail("em-value", site + ".fit_transform", "cell (%d, %d): got %r, documented procedure gives %r (n_iter=%d, epsilon=%r, specs %r)"
                   % (i, j, A[i, j], want[i, j], case["n_iter"], case["epsilon"], case["specs"]))
        r.nontrivial = case["n_iter"] >= 1 and bool(((C > 0).sum(axis=0) >= 2).any())
        # sub-class: a cell removed by the first threshold is looked up by a later iteration
        if case["epsilon"] > 0 and case["n_iter"] >= 1:
            first = rem.colnorm(C)
            removed = (first > 0) & (first < case["epsilon"])
            if removed.any():
                r.label("pruned-cell-looked-up")
        return r
    return check


@st.composite
def tie_cases(draw, tier):
    """epsilon exactly equal to a normalised entry: integer counts (flat kernel, mix 1, no normalisation) make the column
    normalisation exact in float32, so 'entries below epsilon' is decidable: an entry equal to epsilon must be kept."""
    from vv.gen import corpora
    c = draw(corpora.corpus(max_docs=4, max_len=8, max_alpha=4))
    c["specs"] = [{"kernel": "flat", "radius": draw(st.integers(1, 2)), "orientation": draw(st.sampled_from(["before", "after", "directional"])),
                   "mix": 1.0, "window": "fixed", "offset": 0, "normalize": False}]
    c["normalize_windows"] = False
    c["prune"] = {}
    c["n_iter"] = 0
    c["epsilon"] = draw(st.sampled_from([1.0, 0.5, 0.25, 0.125]))
    c["n_threads"] = 1
    return c


def check_tie(case):
    L = cc.lib()
    np = L["np"]
    r = Result()
    kind, site = "token", "TokenCooccurrenceVectorizer"
    r.label("epsilon:%g" % case["epsilon"])
    e = cc.expectation(kind, case)
    if e.ambiguous or not e.index:
        return r
    s, est = call(cc.build, kind, case, {"n_iter": 0, "epsilon": case["epsilon"], "n_threads": 1})
    s, M = call(est.fit_transform, cc.lib_input(kind, case))
    if s == "exc":
        r.fail(exc_kind(M), site + ".fit_transform", exc_detail(M))
        return r
    shape = (e.n_rows, e.n_cols * len(e.blocks))
    C, _ = cc.cell_matrix(np, e.cells, shape)
    colsum = C.sum(axis=0)
    want = np.zeros(shape)
    nz = colsum > 0
    want[:, nz] = C[:, nz] / colsum[nz]           # integer counts: exact whenever the quotient is dyadic
    ties = (want == case["epsilon"])
    want[want < case["epsilon"]] = 0.0
    A = np.asarray(M.todense(), dtype=np.float64)
    if A.shape != shape:
        r.fail("shape", site + ".fit_transform", "shape %s, expected %s" % (A.shape, shape))
        return r
    if ties.any():
        r.label("exact-tie")
        r.nontrivial = True
        if (A[ties] == 0).any():
            i, j = np.argwhere(ties & (A == 0))[0]
            r.fail("tie-dropped", site + ".fit_transform", "cell (%d, %d) equals epsilon = %g exactly (count %g of %g) but was zeroed: only entries below epsilon may be removed"
                   % (i, j, case["epsilon"], C[i, j], colsum[j]))
    if not np.allclose(A, want, rtol=1e-6, atol=1e-7) and not r.failures:
        # entries within float32 rounding of epsilon (non-dyadic quotients) are not decidable
        close = np.abs(want - case["epsilon"]) <= 1e-6
        near = (np.abs(C / np.where(colsum > 0, colsum, 1)[None, :] - case["epsilon"]) <= 1e-6) & ~ties
        if not near.any():
            i, j = np.argwhere(~np.isclose(A, want, rtol=1e-6, atol=1e-7))[0]
            r.fail("threshold-value", site + ".fit_transform", "cell (%d, %d): got %r, normalise-and-threshold gives %r" % (i, j, A[i, j], want[i, j]))
    return r


def fam(kind, quick, thorough):
    return Family(lambda tier, kind=kind: cases(kind, tier), make_check(kind), {"quick": quick, "thorough": thorough},
                  {"quick": 4, "thorough": 16})


FAMILIES = {
    "token": fam("token", 280, 4000),
    "timed": fam("timed", 200, 3000),
    "multi": fam("multi", 200, 3000),
    "ngram": fam("ngram", 200, 3000),
    "epsilon_ties": Family(tie_cases, check_tie, {"quick": 300, "thorough": 4000}, {"quick": 1, "thorough": 4}),
}
