"""C10 - compiled kernels never access memory outside their arrays."""
import copy

from hypothesis import strategies as st

from vv import fam as F
from vv.core import Family, Result
from vv.props.c02 import rows_equal

RULE = ("The scenario generators of C01/C02 (every estimator family whose code path contains numba kernels, with their edge-biased sizes: "
        "length-0/1 sequences and strings, radius larger than the sequence, epsilon pruning cells before an EM iteration, "
        "coo_initial_memory='1k' with many events, fixed dictionaries, one-row / one-column matrices, window width equal to the sequence "
        "length), the distance functions (C18 cases, plus sparse vectors without stored entries on either or both sides for the sparse functions), transport_plan (small C07 cases) and the LOT kernels called directly (exact / dense / Sinkhorn internals on C08-style inputs). Each scenario (fit_transform on X, transform on "
        "X') is executed by three persistent worker interpreters: normal JIT, NUMBA_BOUNDSCHECK=1 and NUMBA_DISABLE_JIT=1. Violation: "
        "IndexError / UnboundLocalError / NameError in a checked mode when the normal mode returned; a checked-mode result that differs "
        "from the normal result (exact for integer outputs, rtol 1e-5 / atol 1e-7 otherwise); a crash of a worker. Exceptions raised "
        "identically by all modes are the documented rejection; any other exception only in the interpreted mode makes the scenario "
        "inconclusive (nojit-unsupported) for that mode. Non-trivial: the scenario reached a compiled kernel in all three modes and "
        "belongs to an edge class; distinct by SHA-1 of the case.")
ASSUMPTIONS = ["bounds checking only observes accesses performed on the generated inputs; negative-index wraparound is only caught through the result comparison with the interpreted mode",
               "interpreted mode runs ~100x slower: sizes are the small ones of the family generators"]

MODES = {"normal": {}, "boundscheck": {"NUMBA_BOUNDSCHECK": "1"}, "nojit": {"NUMBA_DISABLE_JIT": "1"}}
MEMORY_ERRORS = ("IndexError", "UnboundLocalError", "NameError")


# ------------------------------------------------------------------------------------------------ worker side
def run_scenario(payload):
    name, spec = payload["name"], payload["spec"]
    out = {}
    if name == "distances":
        from vv.props import c18
        L = c18.lib()
        np, d = L["np"], L["d"]
        x = np.array(spec["x"], dtype=np.float64)
        y = x * spec["c"] if spec["y"] is None else np.array(spec["y"], dtype=np.float64)
        i1, d1 = c18.sparse_of(np, x, spec["f32"], spec["explicit_zeros"])
        i2, d2 = c18.sparse_of(np, y, spec["f32"], spec["explicit_zeros"])
        empty = spec.get("empty")
        if empty in ("x", "both"):
            i1, d1 = i1[:0].copy(), d1[:0].copy()
        if empty in ("y", "both"):
            i2, d2 = i2[:0].copy(), d2[:0].copy()
        fns = {"hellinger": lambda: d.hellinger(x, y), "tv": lambda: d.total_variation(x, y), "k1": lambda: d.kantorovich1d(x, y, 1),
               "k2": lambda: d.kantorovich1d(x, y, 2), "js": lambda: d.jensen_shannon_divergence(x, y), "kl": lambda: d.symmetric_kl_divergence(x, y),
               "s_hell": lambda: d.sparse_hellinger(i1, d1, i2, d2), "s_tv": lambda: d.sparse_total_variation(i1, d1, i2, d2),
               "s_js": lambda: d.sparse_jensen_shannon_divergence(i1, d1, i2, d2), "s_kl": lambda: d.sparse_symmetric_kl_divergence(i1, d1, i2, d2),
               "sum": lambda: [np.asarray(a, dtype=np.float64) for a in d.sparse_sum(i1, d1, i2, d2)],
               "diff": lambda: [np.asarray(a, dtype=np.float64) for a in d.sparse_diff(i1, d1, i2, d2)],
               "mul": lambda: [np.asarray(a, dtype=np.float64) for a in d.sparse_mul(i1, d1, i2, d2)]}
        if empty:
            # sparse vectors without stored entries (all-zero rows of a sparse matrix): only the sparse functions accept them
            fns = {k: f for k, f in fns.items() if k.startswith("s_") or k in ("sum", "diff", "mul")}
        for k, f in fns.items():
            try:
                v = f()
                if k in ("hellinger", "s_hell"):
                    v = float(v) ** 2       # compared squared: the square root magnifies float32 rounding near zero
                out[k] = ("ok", [np.atleast_1d(np.asarray(v, dtype=np.float64))] if not isinstance(v, list) else v)
            except Exception as e:
                out[k] = ("exc", type(e).__name__, str(e)[:200])
        return out
    if name == "transport_plan":
        from vv.props import c07
        import numpy as np
        p, q = c07.masses(spec["p"], spec["power"]), c07.masses(spec["q"], spec["power"])
        C = c07.build_cost(spec)
        try:
            P = np.asarray(c07.lib()["tp"](p, q, np.ascontiguousarray(C)), dtype=np.float64)
            # optimal plans are not unique (ties): the modes are compared on cost and marginals, not on the plan itself
            out["plan"] = ("ok", [np.array([float((P * C).sum())]), P.sum(axis=1), P.sum(axis=0)])
        except Exception as e:
            out["plan"] = ("exc", type(e).__name__, str(e)[:200])
        return out
    if name == "lot_kernels":
        # the LOT kernels themselves (exact plans, barycentric projection, spherical correction, batched Sinkhorn): the SVD
        # compression that follows them in the estimators is scikit-learn's and is ill-conditioned in null directions
        import numpy as np
        import scipy.sparse as sp
        from sklearn.preprocessing import normalize
        from vectorizers import linear_optimal_transport as lot
        from vv.props import c08
        import numba
        metric = spec["params"].get("metric", "euclidean")
        W = np.asarray(spec["test"]["W"], dtype=np.float64)
        V = np.asarray(c08.jitter(spec["test"]["V"]), dtype=np.float64)
        k = spec["params"].get("reference_size", 3)
        R = V[:k] + 0.05
        dist = lot.cosine if metric == "cosine" else lot.named_distances["euclidean"]
        if metric == "cosine":
            V = normalize(V, norm="l2")
            R = normalize(R, norm="l2")
        q = np.full(R.shape[0], 1.0 / R.shape[0])
        X = normalize(sp.csr_matrix(W), norm="l1")
        steps = {
            "sparse_internal": lambda: lot.lot_vectors_sparse_internal(X.indptr, X.indices, X.data.astype(np.float64), V, R, q, metric=dist,
                                                                       max_distribution_size=256, chunk_size=256, spherical_vectors=(metric == "cosine")),
            "dense_internal": lambda: lot.lot_vectors_dense_internal(
                numba.typed.List([np.ascontiguousarray(V[W[i] > 0]) for i in range(W.shape[0])]),
                numba.typed.List([(W[i][W[i] > 0] / W[i].sum()).astype(np.float64) for i in range(W.shape[0])]),
                R, q, metric=dist, max_distribution_size=256, chunk_size=256, spherical_vectors=(metric == "cosine")),
            "sinkhorn_internal": lambda: lot.sinkhorn_vectors_sparse_internal(
                np.asarray(X.todense(), dtype=np.float64), V, q, R,
                lot.chunked_pairwise_distance(V, R, dist=dist).T.astype(np.float64)),
        }
        for kname, f in steps.items():
            try:
                out[kname] = ("ok", [r for r in np.asarray(f(), dtype=np.float64)])
            except Exception as e:
                out[kname] = ("exc", type(e).__name__, str(e)[:300])
        return out
    fam = F.get(name)
    try:
        est = fam.make(copy.deepcopy(spec))
        r1 = F.fit_call(fam, est, spec, "fit_transform")
        out["fit_transform"] = ("ok", fam.canon(r1, spec))
    except Exception as e:
        out["fit_transform"] = ("exc", type(e).__name__, str(e)[:300])
        return out
    try:
        r2 = F.transform_call(fam, est, spec, spec["test"])
        out["transform"] = ("ok", fam.canon(r2, spec))
    except Exception as e:
        out["transform"] = ("exc", type(e).__name__, str(e)[:300])
    return out


# ------------------------------------------------------------------------------------------------ parent side
def make_check(name):
    def check(spec):
        from vv import workers
        np = __import__("numpy")
        r = Result()
        r.label("family:" + name)
        fam = F.get(name) if name not in ("distances", "transport_plan", "lot_kernels") else None
        exact = fam.exact if fam else False
        rtol, atol = (max(fam.rtol, 1e-5), max(fam.atol, 1e-7)) if fam else (1e-5, 1e-7)
        if fam is not None and fam.svd:
            rtol, atol = 1e-3, 1e-5
        if name == "distances":
            rtol, atol = 1e-5, 1e-6      # float32 products inside the sparse helpers
        if name == "lot_kernels":
            rtol, atol = 1e-5, 1e-7
        res = {}
        for mode, env in MODES.items():
            w = workers.get(env, mode)
            s, out = w.call("vv.props.c10.run_scenario", {"name": name, "spec": spec})
            if s == "crash":
                r.fail("crash", "%s[%s]" % (name, mode), "worker interpreter died (return code %s)" % out["returncode"])
                return r
            if s == "exc":
                raise RuntimeError("worker harness error in mode %s: %s\n%s" % (mode, out["msg"], out["tb"]))
            res[mode] = out
        base = res["normal"]
        reached = True
        for step, val in base.items():
            for mode in ("boundscheck", "nojit"):
                other = res[mode].get(step)
                if other is None:
                    continue
                site = "%s.%s[%s]" % (name, step, mode)
                if val[0] == "ok" and other[0] == "exc":
                    if other[1] in MEMORY_ERRORS:
                        r.fail("exception:" + other[1], site, "%s: %s (the normal compiled run returned a result)" % (other[1], other[2]))
                    elif mode == "nojit":
                        r.inconclusive = "nojit-unsupported"
                        r.label("nojit-unsupported:" + other[1])
                        reached = False
                    else:
                        r.fail("exception:" + other[1], site, "%s: %s only under bounds checking" % (other[1], other[2]))
                elif val[0] == "exc" and other[0] == "exc":
                    if other[1] in MEMORY_ERRORS and val[1] != other[1]:
                        r.fail("exception:" + other[1], site, "%s: %s (normal mode raised %s instead)" % (other[1], other[2], val[1]))
                    else:
                        r.label("rejected:" + val[1])
                        reached = False
                elif val[0] == "exc" and other[0] == "ok":
                    if mode == "nojit":
                        r.label("normal-only-exception:" + val[1])
                        reached = False
                    else:
                        r.fail("mode-dependent-exception", site, "normal mode raised %s: %s but %s returned" % (val[1], val[2], mode))
                else:
                    msg = rows_equal(np, other[1], val[1], exact, rtol, atol, equal_nan=True)
                    if msg:
                        r.fail("mode-dependent-result", site, "result differs from the normal compiled run: " + msg)
        r.nontrivial = reached
        return r
    return check


def strategy_for(name):
    if name == "distances":
        from vv.props import c18

        @st.composite
        def with_empties(draw, tier):
            c = draw(c18.cases("quick"))
            c["empty"] = draw(st.sampled_from([None, None, None, None, "x", "y", "both"]))
            return c
        return with_empties
    if name == "transport_plan":
        from vv.props import c07

        @st.composite
        def small(draw, tier):
            c = draw(c07.cases("quick"))
            return c
        return lambda tier: small(tier).filter(lambda c: c["n"] <= 6 and c["m"] <= 6)
    if name == "lot_kernels":
        return lambda tier: F.get("wass_LOT_exact_spmatrix").strategy(tier)
    fam = F.get(name)
    if name.endswith("_cooc") and name != "tree_cooc":
        @st.composite
        def s(draw, tier):
            spec = draw(fam.strategy(tier))
            spec["extra"]["coo_initial_memory"] = draw(st.sampled_from(["1 GiB", "1k", "2k"]))
            return spec
        return s
    if name.startswith("wass") or name == "sinkhorn":
        @st.composite
        def sw(draw, tier):
            spec = draw(fam.strategy(tier))
            # the default reference is built from scipy's svds, whose start vector is unseeded: explicit references make
            # the three runs comparable (the seeding itself is C13's subject)
            spec["explicit_reference"] = True
            return spec
        return sw
    if name in ("iw", "rowdenoise"):
        @st.composite
        def sm(draw, tier):
            spec = draw(fam.strategy(tier))
            spec["storage"] = draw(st.sampled_from(["csr", "csc_unsorted", "csr_zeros"]))    # non-canonical storages reach the kernels too
            return spec
        return sm
    return lambda tier: fam.strategy(tier)


FAMILIES = {}
for _n, _q, _t in [("ngram", 60, 1000), ("skipgram", 60, 1000), ("lz", 60, 1000), ("bpe_sequences", 80, 1500), ("bpe_matrix", 40, 600),
                   ("token_cooc", 80, 1500), ("timed_cooc", 60, 1000), ("multi_cooc", 60, 1000), ("ngram_cooc", 60, 1000), ("tree_cooc", 40, 600),
                   ("iw", 60, 1000), ("rowdenoise", 60, 1000), ("slidewin", 40, 500), ("seqdiff", 20, 300), ("kde", 30, 300),
                   ("lot_kernels", 60, 900), ("distances", 300, 6000), ("transport_plan", 60, 1500)]:
    FAMILIES[_n] = Family(strategy_for(_n), make_check(_n), {"quick": _q, "thorough": _t}, {"quick": 1, "thorough": 4})
