"""C20 - histogram rows conserve the events; KDE rows depend only on the value multiset."""
import math

from hypothesis import strategies as st

from vv.core import Family, Result, call, exc_kind, exc_detail

RULE = ("Histogram: Hypothesis draws 2-8 training sequences (ints and dyadic floats, many duplicates; non-negative for 'quantile'), "
        "n_components 2-10, strategy, an absolute_range built around the data (infinite, wider than, or cutting into the data) with at "
        "least two distinct training values strictly inside, append_outlier_bins, and transform sequences containing the training "
        "min/max, both range bounds, far-away values and empty sequences. Oracle: bin_intervals_ is a right-closed, gap-free, strictly "
        "increasing partition of the absolute range; each row entry equals an independent count of values in (left, right]; row total "
        "equals the number of values in (lo, hi]. KDE: arrays of 1-25 values, explicit bandwidth, three kernels, two grid strategies; "
        "rows finite and >= 0, invariant under permutation, equal to the Gaussian mixture formula for the gaussian kernel, and a "
        "function of (bandwidth_, evaluation_grid_) only. Non-trivial: a transform value equal to a bin edge or outside the training "
        "range (histogram) / a sequence with >= 2 distinct values that is not sorted (KDE); distinct by SHA-1 of the case.")
ASSUMPTIONS = ["training data has at least two distinct values strictly inside absolute_range; 'quantile' only on non-negative data",
               "KDE: every sequence is a non-empty 1-d float array and bandwidth is given explicitly (bandwidth=None only in a small structural class)"]

_L = {}


def lib():
    if not _L:
        import numpy as np
        from vectorizers import HistogramVectorizer, KDEVectorizer
        _L.update(np=np, H=HistogramVectorizer, K=KDEVectorizer)
    return _L


INF = float("inf")


@st.composite
def hist_cases(draw, tier):
    strategy = draw(st.sampled_from(["uniform", "uniform", "quantile"]))
    lo_v = 0 if strategy == "quantile" else -10
    val = st.one_of(st.integers(lo_v, 12), st.integers(lo_v, 30), st.sampled_from([0.5, 1.5, 2.25, 7.75, 10.5]))
    train = draw(st.lists(st.lists(val, min_size=1, max_size=30 if tier == "thorough" else 14), min_size=2, max_size=8))
    distinct = sorted({v for s in train for v in s})
    if len(distinct) < 2:
        train[0] = train[0] + [distinct[0] + 3]
        distinct = sorted({v for s in train for v in s})
    # absolute range with >= 2 distinct training values strictly inside
    lo_opts = [-INF, -INF, distinct[0] - 5, distinct[0] - 0.5]
    hi_opts = [INF, INF, distinct[-1] + 5, distinct[-1] + 0.5]
    if len(distinct) >= 4:
        lo_opts.append(distinct[0])          # cuts the training minimum out of the range
        hi_opts.append(distinct[-1])
    lo = draw(st.sampled_from(lo_opts))
    hi = draw(st.sampled_from(hi_opts))
    if strategy == "quantile" and lo != -INF and lo < 0:
        lo = -INF if draw(st.booleans()) else -0.5
    inside = [v for v in distinct if lo < v < hi]
    special = [inside[0], inside[-1], inside[0] - 1, inside[-1] + 1, inside[0] - 1000, inside[-1] + 1000, 1e9, -1e9]
    if lo != -INF:
        special += [lo, lo - 1, lo + 0.25]
    if hi != INF:
        special += [hi, hi + 1, hi - 0.25]
    tval = st.one_of(st.sampled_from(special), val, st.sampled_from(inside))
    test = draw(st.lists(st.lists(tval, max_size=12), min_size=1, max_size=5))
    return {"train": train, "test": test, "n_components": draw(st.integers(2, 10)), "strategy": strategy,
            "range": [lo, hi], "outlier_bins": draw(st.booleans()), "as_array": draw(st.booleans()), "pre_use": draw(st.booleans())}


def check_hist(case):
    L = lib()
    np = L["np"]
    r = Result()
    lo, hi = case["range"]
    site = "HistogramVectorizer[%s%s]" % (case["strategy"], "+outlier" if case["outlier_bins"] else "")
    r.label("strategy:" + case["strategy"], "outlier_bins:%s" % case["outlier_bins"],
            "range:%s" % ("inf" if lo == -INF and hi == INF else "finite" if lo != -INF and hi != INF else "half"))
    conv = (lambda s: np.asarray(s, dtype=np.float64)) if case["as_array"] else (lambda s: list(s))
    train = [conv(s) for s in case["train"]]
    if not case["as_array"] and not train[0]:
        train[0] = [0]
    est = L["H"](n_components=case["n_components"], strategy=case["strategy"], absolute_range=(lo, hi),
                 append_outlier_bins=case["outlier_bins"])
    if case.get("pre_use"):
        # history: the same estimator object was fitted on, and used with, the transform sequences before
        r.label("previously-used-estimator")
        other = [conv(s_) for s_ in case["test"] if len(s_) >= 1]
        if len({v for s_ in case["test"] for v in s_ if lo < v < hi}) >= 2 and other:
            sp_, _o = call(est.fit, other)
            if sp_ == "ok":
                call(est.transform, other)
    s, out = call(est.fit, train)
    if s == "exc":
        r.fail(exc_kind(out), site + ".fit", exc_detail(out))
        return r
    if out is not est:
        r.fail("fit-return", site + ".fit", "fit returned %r" % type(out))
    iv = est.bin_intervals_
    left = [float(i.left) for i in iv]
    right = [float(i.right) for i in iv]
    closed = {i.closed for i in iv}
    if closed != {"right"}:
        r.fail("not-right-closed", site + ".fit", "interval closure %r" % closed)
    if not left:
        r.fail("no-bins", site + ".fit", "no bins")
        return r
    if left[0] != lo:
        r.fail("range-left", site + ".fit", "first bin starts at %r, absolute range at %r" % (left[0], lo))
    if right[-1] != hi:
        r.fail("range-right", site + ".fit", "last bin ends at %r, absolute range at %r" % (right[-1], hi))
    for j in range(len(left) - 1):
        if right[j] != left[j + 1]:
            r.fail("gap-or-overlap", site + ".fit", "bin %d ends at %r but bin %d starts at %r" % (j, right[j], j + 1, left[j + 1]))
            break
    if any(not (left[j] < right[j]) for j in range(len(left))):
        r.fail("not-increasing", site + ".fit", "bins %s" % list(zip(left, right))[:6])
    test = [conv(s) for s in case["test"]]
    s, M = call(est.transform, test)
    if s == "exc":
        r.fail(exc_kind(M), site + ".transform", exc_detail(M))
        return r
    M = np.asarray(M)
    if M.shape != (len(test), len(left)):
        r.fail("shape", site + ".transform", "shape %s, expected (%d, %d)" % (M.shape, len(test), len(left)))
        return r
    edges = set(left) | set(right)
    tr_vals = [v for s_ in case["train"] for v in s_ if lo < v < hi]
    tmin, tmax = min(tr_vals), max(tr_vals)
    for i, seq in enumerate(case["test"]):
        row = M[i]
        if not np.isfinite(row).all() or (row < 0).any() or (row != np.round(row)).any():
            r.fail("not-counts", site + ".transform", "row %d = %s" % (i, row.tolist()))
            continue
        want = [sum(1 for v in seq if left[j] < v <= right[j]) for j in range(len(left))]
        if row.tolist() != [float(w) for w in want]:
            r.fail("bin-count", site + ".transform", "row %d = %s, independent count %s for values %s and bins %s"
                   % (i, row.tolist(), want, seq, list(zip(left, right))))
        total = sum(1 for v in seq if lo < v <= hi)
        if float(row.sum()) != float(total):
            r.fail("not-conserved", site + ".transform", "row %d sums to %r but %d values lie in (%r, %r]: %s"
                   % (i, float(row.sum()), total, lo, hi, seq))
        if any(v in edges or v < tmin or v > tmax for v in seq):
            r.nontrivial = True
        if not seq:
            r.label("empty-sequence")
    return r


# -------------------------------------------------------------------------------------------------- KDE
@st.composite
def kde_cases(draw, tier):
    val = st.one_of(st.integers(-5, 20).map(float), st.sampled_from([0.5, 2.25, 3.75, 11.5]),
                    st.floats(-5, 20, allow_nan=False, width=32).map(float))
    seq = st.lists(val, min_size=1, max_size=25 if tier == "thorough" else 12)
    train = draw(st.lists(seq, min_size=1, max_size=5))
    flat = sorted({v for s in train for v in s})
    if len(flat) < 2:
        train[0] = train[0] + [flat[0] + 2.0]
    train2 = draw(st.lists(seq, min_size=1, max_size=3))
    test = draw(st.lists(seq, min_size=1, max_size=4))
    # a long sequence (beyond any plausible internal block size) generated from a drawn seed
    if draw(st.sampled_from([False, False, True])):
        import random as _random
        n_long = draw(st.sampled_from([1025, 1500, 2600, 4097]))
        rnd = _random.Random(draw(st.integers(0, 10 ** 6)))
        test = test + [[round(rnd.uniform(-5, 20), 3) for _ in range(n_long)]]
    bw = draw(st.sampled_from([0.05, 0.3, 1.0, 2.5, 5.0, 0.3, 1.0, None]))
    if bw is None:
        # the jackknife bandwidth search needs >= 2 values per sequence and >= 2 distinct values overall
        train = [s_ if len(s_) >= 2 else s_ + [s_[0] + 1.5] for s_ in train][:3]
        train = [s_[:6] for s_ in train]
        if len({v for s_ in train for v in s_}) < 2:
            train[0] = [train[0][0], train[0][0] + 2.0]
    return {"train": train, "train2": train2, "test": test,
            "bandwidth": bw,
            "n_components": draw(st.integers(2, 30)),
            "kernel": draw(st.sampled_from(["gaussian", "gaussian", "tophat", "epanechnikov"])),
            "grid": draw(st.sampled_from(["uniform", "density"])),
            "perm_seed": draw(st.integers(0, 10 ** 6)), "pre_use": draw(st.booleans()) if bw is not None else False}


def check_kde(case):
    import random
    L = lib()
    np = L["np"]
    r = Result()
    site = "KDEVectorizer[%s,%s]" % (case["kernel"], case["grid"])
    r.label("kernel:" + case["kernel"], "grid:" + case["grid"], "bandwidth:%s" % ("jackknife" if case["bandwidth"] is None else "given"))
    arr = lambda seqs: [np.asarray(s, dtype=np.float64) for s in seqs]
    mk = lambda: L["K"](bandwidth=case["bandwidth"], n_components=case["n_components"], kernel=case["kernel"],
                        evaluation_grid_strategy=case["grid"])
    est = mk()
    if case.get("pre_use"):
        r.label("previously-used-estimator")
        sp_, _o = call(est.fit, arr(case["train2"]))
        if sp_ == "ok":
            call(est.transform, arr(case["test"]))
    s, out = call(est.fit, arr(case["train"]))
    if s == "exc":
        r.fail(exc_kind(out), site + ".fit", exc_detail(out))
        return r
    if out is not est:
        r.fail("fit-return", site + ".fit", "fit returned %r" % type(out))
    test = case["test"]
    s, M = call(est.transform, arr(test))
    if s == "exc":
        r.fail(exc_kind(M), site + ".transform", exc_detail(M))
        return r
    M = np.asarray(M)
    grid = np.asarray(est.evaluation_grid_, dtype=np.float64)
    bw = float(est.bandwidth_)
    if M.shape != (len(test), case["n_components"]) or grid.shape != (case["n_components"],):
        r.fail("shape", site + ".transform", "shape %s, grid %s, n_components %d" % (M.shape, grid.shape, case["n_components"]))
        return r
    if not np.isfinite(M).all() or (M < 0).any():
        r.fail("not-density", site + ".transform", "non-finite or negative density values")
        return r
    rnd = random.Random(case["perm_seed"])
    perm = []
    for s_ in test:
        p = list(s_)
        rnd.shuffle(p)
        perm.append(p)
        if len(set(s_)) >= 2 and p != list(s_):
            r.nontrivial = True
    s, M2 = call(est.transform, arr(perm))
    if s == "exc":
        r.fail(exc_kind(M2), site + ".transform[permuted]", exc_detail(M2))
    elif not np.allclose(M, M2, rtol=1e-9, atol=1e-300):
        r.fail("order-dependent", site + ".transform", "row changed when the sequence was permuted")
    if case["kernel"] == "gaussian":
        for i, s_ in enumerate(test):
            x = np.asarray(s_, dtype=np.float64)
            z = (grid[:, None] - x[None, :]) / bw
            want = np.exp(-0.5 * z * z).sum(axis=1) / (len(x) * bw * math.sqrt(2 * math.pi))
            if not np.allclose(M[i], want, rtol=1e-9, atol=1e-300):
                r.fail("kde-value", site + ".transform", "row %d differs from mean_i N(grid - x_i; bandwidth)" % i)
                break
    # depends on the model only through bandwidth_ and evaluation_grid_
    other = mk()
    s, out = call(other.fit, arr(case["train2"] if len({v for q in case["train2"] for v in q}) >= 1 else case["train"]))
    if s == "ok":
        other.bandwidth_ = est.bandwidth_
        other.evaluation_grid_ = est.evaluation_grid_.copy()
        s, M3 = call(other.transform, arr(test))
        if s == "ok" and not np.allclose(M, np.asarray(M3), rtol=1e-12, atol=0):
            r.fail("hidden-state", site + ".transform", "two models with equal bandwidth_ and evaluation_grid_ give different rows")
    return r


FAMILIES = {
    "histogram": Family(hist_cases, check_hist, {"quick": 600, "thorough": 10000}, {"quick": 6, "thorough": 16}),
    "kde": Family(kde_cases, check_kde, {"quick": 400, "thorough": 5000}, {"quick": 4, "thorough": 16}),
}
