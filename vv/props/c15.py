"""C15 - labelled-tree co-occurrence counts kernel-weighted walks between labels."""
from hypothesis import strategies as st

from vv.core import Family, Result, call, exc_kind, exc_detail
from vv.ref import kernels, vocab

RULE = ("Hypothesis draws forests of 1-4 rooted trees as parent arrays (1-10 nodes: chains, stars, random shapes, isolated nodes), labels "
        "from 1-4 symbols with repeats, radius 1-4, kernel flat/harmonic/geometric with offset / normalize / power, one of the four "
        "orientations, adjacency as CSR or LIL (optionally one LIL object shared by two trees), optional pruning (excluded labels, "
        "occurrence bounds) with and without mask / nullify_mask, and a second forest for transform. Oracle: dense walk counting "
        "sum_k w_k (A^k)[u, v] accumulated by label after contracting removed nodes on the parent arrays (reference written on parent "
        "arrays, weights from closed forms), compared through the dictionaries; before = after^T, symmetric = after + after^T, "
        "directional = [before | after]; on chains the matrix equals TokenCooccurrenceVectorizer(normalize_windows=False) on the label "
        "sequences. Non-trivial: a branching node with a repeated label, or a removed inner node; distinct by SHA-1 of the case.")
ASSUMPTIONS = ["adjacency matrices are parent -> child 0/1 matrices of forests, labels a numpy array of one homogeneous type",
               "float32/float64 accumulation: rtol 1e-6"]

_L = {}


def lib():
    if not _L:
        import numpy as np
        import scipy.sparse as sp
        from vectorizers import LabelledTreeCooccurrenceVectorizer, TokenCooccurrenceVectorizer
        _L.update(np=np, sp=sp, Tree=LabelledTreeCooccurrenceVectorizer, Tok=TokenCooccurrenceVectorizer)
    return _L


LABS = ["a", "b", "c", "d"]


@st.composite
def tree(draw, max_nodes, k_labels, shape=None):
    n = draw(st.integers(1, max_nodes))
    shape = shape or draw(st.sampled_from(["chain", "star", "random", "random", "forest"]))
    parents = [-1] * n
    for i in range(1, n):
        if shape == "chain":
            parents[i] = i - 1
        elif shape == "star":
            parents[i] = 0
        elif shape == "random":
            parents[i] = draw(st.integers(0, i - 1))
        else:
            parents[i] = draw(st.integers(-1, i - 1))       # -1: another root / isolated node
    labels = draw(st.lists(st.sampled_from(LABS[:k_labels]), min_size=n, max_size=n))
    return {"parents": parents, "labels": labels}


@st.composite
def kernel_params(draw):
    kernel = draw(st.sampled_from(["flat", "harmonic", "geometric"]))
    radius = draw(st.integers(1, 4))
    kargs = {}
    if draw(st.booleans()):
        kargs["offset"] = draw(st.integers(0, 2))
    if draw(st.booleans()):
        kargs["normalize"] = draw(st.booleans())
    if kernel == "geometric" and draw(st.booleans()):
        kargs["power"] = draw(st.sampled_from([0.5, 0.9, 0.25]))
    return kernel, radius, kargs


@st.composite
def cases(draw, tier):
    k = draw(st.integers(1, 4))
    big = 14 if tier == "thorough" else 10
    forest = draw(st.lists(tree(big, k), min_size=1, max_size=4))
    test = draw(st.lists(tree(big, min(4, k + 1)), min_size=1, max_size=3))
    kernel, radius, kargs = draw(kernel_params())
    prune = {}
    labs_present = sorted({l for t in forest for l in t["labels"]})
    which = draw(st.sampled_from(["none", "none", "ignored", "ignored", "min_occurrences", "max_occurrences", "max_tree_occurrences"]))
    if which != "none" and len(labs_present) >= 2:
        if which == "ignored":
            prune["ignored_tokens"] = draw(st.lists(st.sampled_from(labs_present), min_size=1, max_size=2, unique=True))
        else:
            from collections import Counter
            cnt = Counter(l for t in forest for l in t["labels"])
            dcnt = Counter(l for t in forest for l in set(t["labels"]))
            vals = sorted(set((dcnt if "tree" in which else cnt).values()))
            prune[which] = draw(st.sampled_from(vals))
    mask = draw(st.sampled_from([None, "__M__", "__M__"])) if prune else None
    return {"forest": forest, "test": test, "kernel": kernel, "radius": radius, "kernel_args": kargs,
            "orientation": draw(st.sampled_from(["before", "after", "symmetric", "directional"])),
            "prune": prune, "mask": mask, "nullify": draw(st.booleans()) if mask else False,
            "storage": draw(st.sampled_from(["csr", "csr", "lil", "lil_shared"])),
            "adj_dtype": draw(st.sampled_from(["float64", "float64", "int64", "bool"])),
            # history inside one process: another estimator with other kernel arguments is fitted first
            "prior_kernel_args": draw(st.sampled_from([None, None, {"power": 0.5}, {"offset": 1}, {"normalize": True}]))}


# ------------------------------------------------------------------------------------------------ reference
def contract(parents, removed):
    """Reconnect every removed node's children to its nearest kept ancestor; removed nodes become isolated."""
    n = len(parents)
    out = list(parents)

    def kept_ancestor(u):
        p = parents[u]
        while p != -1 and p in removed:
            p = parents[p]
        return p
    for u in range(n):
        out[u] = -1 if u in removed else kept_ancestor(u)
    return out


def walk_counts(np, parents, weights):
    n = len(parents)
    A = np.zeros((n, n))
    for v, p in enumerate(parents):
        if p >= 0:
            A[p, v] = 1.0
    C = np.zeros((n, n))
    W = np.eye(n)
    for w in weights:
        W = W @ A
        C += w * W
    return C


def ref_after(np, forest, kept, mask, nullify, index, weights):
    """'after' matrix over the vocabulary `index` (label -> row)."""
    R = np.zeros((len(index), len(index)))
    for t in forest:
        labels = list(t["labels"])
        if mask is None:
            removed = {u for u, l in enumerate(labels) if l not in kept}
            par = contract(t["parents"], removed)
        else:
            labels = [l if l in kept else mask for l in labels]
            par = list(t["parents"])
            removed = set()
        C = walk_counts(np, par, weights)
        for u in range(len(labels)):
            if u in removed:
                continue
            for v in range(len(labels)):
                if v in removed or C[u, v] == 0:
                    continue
                R[index[labels[u]], index[labels[v]]] += C[u, v]
    if mask is not None and nullify:
        R[index[mask], :] = 0
        R[:, index[mask]] = 0
    return R


def orient(np, R, orientation):
    if orientation == "after":
        return R
    if orientation == "before":
        return R.T
    if orientation == "symmetric":
        return R + R.T
    return np.hstack([R.T, R])


def to_lib(L, forest, storage, dtype="float64"):
    np, sp = L["np"], L["sp"]
    out = []
    shared = {}
    for t in forest:
        n = len(t["parents"])
        rows = [p for p in t["parents"] if p >= 0]
        cols = [v for v, p in enumerate(t["parents"]) if p >= 0]
        A = sp.csr_matrix((np.ones(len(rows), dtype=np.dtype(dtype)), (rows, cols)), shape=(n, n))
        if storage == "lil":
            A = A.tolil()
        elif storage == "lil_shared":
            key = tuple(t["parents"])
            if key not in shared:
                shared[key] = A.tolil()
            A = shared[key]                     # one adjacency object used by several trees
        out.append((A, np.array(t["labels"])))
    return out


def check(case):
    L = lib()
    np = L["np"]
    r = Result()
    forest, prune, mask = case["forest"], case["prune"], case["mask"]
    site = "LabelledTreeCooccurrenceVectorizer[%s]" % case["orientation"]
    r.label("orientation:" + case["orientation"], "kernel:" + case["kernel"], "storage:" + case["storage"],
            "prune:%s" % (list(prune)[0] if prune else "none"), "mask:%s" % ("nullify" if case["nullify"] else mask is not None))
    kw = dict(prune)
    if "ignored_tokens" in kw:
        kw["ignored_tokens"] = set(kw["ignored_tokens"])
    ka = case["kernel_args"]
    weights = kernels.weights(case["kernel"], case["radius"], power=ka.get("power", 0.9), offset=ka.get("offset", 0),
                              normalize=ka.get("normalize", False))

    def make(orientation):
        return L["Tree"](kernel_function=case["kernel"], kernel_args=dict(ka), window_radius=case["radius"],
                         window_orientation=orientation, mask_string=mask, nullify_mask=case["nullify"], **kw)
    adt = case.get("adj_dtype", "float64")
    r.label("adjacency:" + adt)
    if case.get("prior_kernel_args"):
        pk = dict(case["prior_kernel_args"])
        if "power" not in pk or case["kernel"] == "geometric" or True:
            prior_kernel = "geometric" if "power" in pk else case["kernel"]
            prior = L["Tree"](kernel_function=prior_kernel, kernel_args=pk, window_radius=case["radius"], window_orientation="after")
            call(prior.fit, to_lib(L, forest, "csr", adt))
            r.label("prior-estimator")
    est = make(case["orientation"])
    X = to_lib(L, forest, case["storage"], adt)
    s, M = call(est.fit_transform, X)
    docs = [t["labels"] for t in forest]
    spec = {("min_document_occurrences" if k == "min_tree_occurrences" else "max_document_occurrences" if k == "max_tree_occurrences" else
             "excluded_tokens" if k == "ignored_tokens" else k): v for k, v in prune.items()}
    status, cnt = vocab.classify(docs, spec)
    kept = {t for t, v in status.items() if v == "keep"}
    if s == "exc":
        if not kept and mask is None:
            r.label("empty-vocabulary")
            return r
        r.fail(exc_kind(M), site + ".fit_transform", exc_detail(M))
        return r
    tokd = {(k.item() if hasattr(k, "item") else k): int(v) for k, v in est.token_label_dictionary_.items()}
    want_dict = {t: i for i, t in enumerate(sorted(kept))}
    if mask is not None:
        want_dict[mask] = len(kept)
    if tokd != want_dict:
        r.fail("vocabulary", site + ".fit", "token_label_dictionary_ %r, expected %r" % (tokd, want_dict))
        return r
    if not want_dict:
        r.label("empty-vocabulary")
        return r

    def compare(name, got, forest_, orientation):
        R = orient(np, ref_after(np, forest_, kept, mask, case["nullify"], want_dict, weights), orientation)
        A = np.asarray(got.todense())
        if A.shape != R.shape:
            r.fail("shape", site + "." + name, "shape %s, expected %s" % (A.shape, R.shape))
            return None
        if not np.allclose(A, R, rtol=1e-6, atol=1e-9):
            i, j = np.argwhere(~np.isclose(A, R, rtol=1e-6, atol=1e-9))[0]
            inv = {v: k for k, v in want_dict.items()}
            r.fail("walk-count", site + "." + name, "cell (%r, col %d): got %r, weighted walk count %r (weights %s)"
                   % (inv[i], j, A[i, j], R[i, j], weights), offset=ka.get("offset", 0), storage=case["storage"])
        return A
    A = compare("fit_transform", M, forest, case["orientation"])
    # orientation algebra on the implementation itself
    mats = {}
    for o in ("after", "before"):
        e2 = make(o)
        s2, m2 = call(e2.fit_transform, to_lib(L, forest, case["storage"], adt))
        if s2 == "ok":
            mats[o] = np.asarray(m2.todense())
    if len(mats) == 2 and mats["after"].shape == mats["before"].shape[::-1]:
        if not np.allclose(mats["before"], mats["after"].T, rtol=1e-9, atol=0):
            r.fail("orientation-algebra", site, "'before' is not the transpose of 'after'")
        if A is not None:
            want = {"after": mats["after"], "before": mats["before"], "symmetric": mats["after"] + mats["after"].T,
                    "directional": np.hstack([mats["before"], mats["after"]])}[case["orientation"]]
            if want.shape != A.shape or not np.allclose(A, want, rtol=1e-9, atol=0):
                r.fail("orientation-algebra", site, "%s matrix is not composed of the before/after matrices as documented" % case["orientation"])
    # column labels
    if case["orientation"] == "directional":
        cold = dict(est.column_label_dictionary_)
        n = len(want_dict)
        want_cols = {"pre_" + t: i for t, i in want_dict.items()}
        want_cols.update({"post_" + t: i + n for t, i in want_dict.items()})
        if cold != want_cols:
            r.fail("column-labels", site + ".fit", "column_label_dictionary_ %r, expected %r" % (cold, want_cols))
    # transform of another forest in the fitted vocabulary
    s, T = call(est.transform, to_lib(L, case["test"], case["storage"], adt))
    if s == "exc":
        r.fail(exc_kind(T), site + ".transform", exc_detail(T))
    else:
        compare("transform", T, case["test"], case["orientation"])
    # non-triviality
    for t in forest:
        kids = {}
        for v, p in enumerate(t["parents"]):
            kids.setdefault(p, []).append(v)
        branching = any(p >= 0 and len(c) >= 2 for p, c in kids.items())
        repeated = len(set(t["labels"])) < len(t["labels"])
        inner_removed = mask is None and any(l not in kept and t["parents"][u] >= 0 and u in kids for u, l in enumerate(t["labels"]))
        if (branching and repeated) or inner_removed:
            r.nontrivial = True
    return r


# ------------------------------------------------------------------------------------------------ chains vs token vectorizer
@st.composite
def chain_cases(draw, tier):
    k = draw(st.integers(1, 4))
    forest = draw(st.lists(tree(9, k, shape="chain"), min_size=1, max_size=4))
    kernel, radius, kargs = draw(kernel_params())
    # kernel normalisation is per clipped window in the sequence vectorizer and per full radius in the tree
    # vectorizer: the two only coincide without it (corrections log), so the equivalence is asserted for normalize=False
    kargs.pop("normalize", None)
    return {"forest": forest, "kernel": kernel, "radius": radius, "kernel_args": kargs,
            "orientation": draw(st.sampled_from(["before", "after", "directional"]))}


def check_chain(case):
    L = lib()
    np = L["np"]
    r = Result()
    forest = case["forest"]
    ka = case["kernel_args"]
    site = "LabelledTreeCooccurrenceVectorizer~TokenCooccurrenceVectorizer[%s]" % case["orientation"]
    r.label("orientation:" + case["orientation"], "kernel:" + case["kernel"])
    tree_est = L["Tree"](kernel_function=case["kernel"], kernel_args=dict(ka), window_radius=case["radius"],
                         window_orientation=case["orientation"])
    tok_est = L["Tok"](kernel_functions=case["kernel"], kernel_args=dict(ka), window_radii=case["radius"],
                       window_orientations=case["orientation"], normalize_windows=False)
    s1, A = call(tree_est.fit_transform, to_lib(L, forest, "csr"))
    s2, B = call(tok_est.fit_transform, [list(t["labels"]) for t in forest])
    if s1 == "exc":
        r.fail(exc_kind(A), site, exc_detail(A))
        return r
    if s2 == "exc":
        r.fail(exc_kind(B), "TokenCooccurrenceVectorizer.fit_transform", exc_detail(B))
        return r
    A, B = np.asarray(A.todense()), np.asarray(B.todense())
    if A.shape != B.shape or not np.allclose(A, B, rtol=1e-5, atol=1e-7):
        r.fail("path-equivalence", site, "tree matrix %s differs from the token matrix %s on chains %r"
               % (A.tolist()[:3], B.tolist()[:3], [t["labels"] for t in forest][:2]))
    r.nontrivial = any(len(t["labels"]) >= 3 for t in forest) and len({l for t in forest for l in t["labels"]}) >= 2
    return r


FAMILIES = {
    "forests": Family(cases, check, {"quick": 1200, "thorough": 12000}, {"quick": 6, "thorough": 16}),
    "chains": Family(chain_cases, check_chain, {"quick": 160, "thorough": 1600}, {"quick": 4, "thorough": 16}),
}
