"""C18 - distances are finite, symmetric, zero on proportional inputs; sparse = dense."""
import math

from hypothesis import strategies as st

from vv.core import Family, Result, call, exc_kind, exc_detail

RULE = ("Hypothesis draws a dimension 1-64 and vectors whose entries are 0 or in [1e-3, 1e3] (positive total mass), in five relations: "
        "independent, proportional (y = c*x, c in [1e-3, 1e3]), disjoint supports, single non-zero entry, equal; plus a third vector "
        "for the triangle inequality and a sparse encoding (sorted unique int32 indices, float32 or float64 data, optional explicit "
        "zeros); in half of the cases the same array objects are handed to every call of the case (a pairwise loop over stored vectors), in the other half a fresh copy per call. Oracles: finiteness, >= -1e-12, symmetry 1e-9, d(x, cx) <= 1e-6, range [0, 1] for hellinger/TV, triangle inequality "
        "(slack 1e-6), agreement with float64 numpy formulas written from the definitions, sparse vs dense on the densified vectors "
        "(1e-5 on squared Hellinger / TV / JS / KL), sparse_sum/diff/mul vs dense arithmetic in indices and values. Non-trivial: both "
        "vectors have >= 2 non-zeros and are not identical; distinct by SHA-1 of the case.")
ASSUMPTIONS = ["the EPS = 1e-11 smoothing inside the two divergences is part of their definition (the reference applies the same smoothing)",
               "entries are 0 or within [1e-3, 1e3]; outside this domain 'vanishes on proportional inputs' is not what the smoothed definitions promise"]

_L = {}


def lib():
    if not _L:
        import numpy as np
        from vectorizers import distances as d
        _L.update(np=np, d=d)
    return _L


VALUES = [1e-3, 0.01, 0.5, 1.0, 2.0, 3.0, 7.0, 10.0, 1e3]
entry = st.one_of(st.sampled_from(VALUES), st.floats(0.0010000000474974513, 1e3, allow_nan=False, width=32).map(float))
sparse_entry = st.one_of(st.just(0.0), st.just(0.0), entry)


def vec(n, min_nz=1):
    def fix(v):
        if sum(1 for a in v if a != 0) < 1:
            v = list(v)
            v[0] = 1.0
        return v
    return st.lists(sparse_entry, min_size=n, max_size=n).map(fix)


@st.composite
def cases(draw, tier):
    n = draw(st.one_of(st.integers(1, 6), st.integers(1, 64 if tier == "thorough" else 24)))
    kind = draw(st.sampled_from(["independent", "independent", "proportional", "proportional", "disjoint", "single", "equal"]))
    x = draw(vec(n))
    c = 1.0
    if kind == "independent":
        y = draw(vec(n))
    elif kind == "proportional":
        # c is constructed so that every entry of c*x stays inside the domain [1e-3, 1e3]
        nz = [a for a in x if a != 0]
        lo, hi = max(1e-3, 1e-3 / min(nz)), min(1e3, 1e3 / max(nz))
        t = draw(st.one_of(st.sampled_from([0.0, 0.25, 0.5, 0.75, 1.0]), st.floats(0, 1, allow_nan=False)))
        c = float(min(hi, max(lo, math.exp(math.log(lo) + t * (math.log(hi) - math.log(lo))))))
        y = None
    elif kind == "equal":
        y = list(x)
    elif kind == "single":
        i, j = draw(st.integers(0, n - 1)), draw(st.integers(0, n - 1))
        x = [0.0] * n
        x[i] = draw(entry)
        y = [0.0] * n
        y[j] = draw(entry)
    else:  # disjoint supports
        if n == 1:
            kind, y = "equal", list(x)
        else:
            mask = draw(st.lists(st.booleans(), min_size=n, max_size=n))
            if all(mask):
                mask[0] = False
            if not any(mask):
                mask[0] = True
            vals = draw(st.lists(entry, min_size=n, max_size=n))
            x = [v if m else 0.0 for v, m in zip(vals, mask)]
            y = [v if not m else 0.0 for v, m in zip(vals, mask)]
    z = draw(vec(n))
    return {"kind": kind, "x": x, "y": y, "c": c, "z": z,
            "f32": draw(st.booleans()), "explicit_zeros": draw(st.booleans()),
            # the same array objects are handed to every call (a pairwise loop over stored vectors) or a fresh copy per call
            "reuse": draw(st.booleans())}


# ---------------------------------------------------------------------------------------------- reference
def ref_values(np, x, y):
    EPS = 1e-11
    sx, sy = x.sum(), y.sum()
    bc = np.sqrt(x * y).sum() / math.sqrt(sx * sy)
    h2 = max(0.0, 1.0 - bc)
    px, py = x / sx, y / sy
    tv = 0.5 * np.abs(px - py).sum()
    cx, cy = np.cumsum(px), np.cumsum(py)
    k1 = np.abs(cx - cy).sum()
    k2 = math.sqrt(((cx - cy) ** 2).sum())
    n = x.shape[0]
    qx = (x + EPS) / (sx + EPS * n)
    qy = (y + EPS) / (sy + EPS * n)
    m = 0.5 * (qx + qy)
    js = 0.5 * (qx * np.log(qx / m)).sum() + 0.5 * (qy * np.log(qy / m)).sum()
    kl = (qx * np.log(qx / qy)).sum() + (qy * np.log(qy / qx)).sum()
    return {"hellinger2": h2, "total_variation": tv, "kantorovich1": k1, "kantorovich2": k2,
            "jensen_shannon": js, "symmetric_kl": kl}


def sparse_of(np, v, f32, explicit_zeros):
    v = np.asarray(v, dtype=np.float64)
    if explicit_zeros:
        idx = np.arange(v.shape[0])
        keep = (v != 0) | (idx % 3 == 0)
    else:
        keep = v != 0
    ind = np.flatnonzero(keep).astype(np.int32)
    data = v[keep].astype(np.float32 if f32 else np.float64)
    return ind, data


def check(case):
    L = lib()
    np, d = L["np"], L["d"]
    r = Result()
    x = np.array(case["x"], dtype=np.float64)
    y = x * case["c"] if case["y"] is None else np.array(case["y"], dtype=np.float64)
    z = np.array(case["z"], dtype=np.float64)
    kind = case["kind"]
    n = x.shape[0]
    reuse = bool(case.get("reuse"))
    arg = (lambda a: a) if reuse else (lambda a: a.copy())
    x0, y0 = x.copy(), y.copy()
    r.label("arrays:" + ("shared" if reuse else "copied"))
    r.label("kind:" + kind, "dim:%s" % ("1" if n == 1 else "2-8" if n <= 8 else "9+"))
    r.nontrivial = (x != 0).sum() >= 2 and (y != 0).sum() >= 2 and not np.array_equal(x, y)
    funcs = {
        "hellinger": lambda a, b: d.hellinger(a, b),
        "total_variation": lambda a, b: d.total_variation(a, b),
        "kantorovich1": lambda a, b: d.kantorovich1d(a, b, 1),
        "kantorovich2": lambda a, b: d.kantorovich1d(a, b, 2),
        "jensen_shannon": lambda a, b: d.jensen_shannon_divergence(a, b),
        "symmetric_kl": lambda a, b: d.symmetric_kl_divergence(a, b),
    }
    ref = ref_values(np, x, y)
    val = {}
    for name, f in funcs.items():
        site = "distances." + name
        s, v = call(f, arg(x), arg(y))
        s2, v2 = call(f, arg(y), arg(x))
        if s == "exc" or s2 == "exc":
            e = v if s == "exc" else v2
            r.fail(exc_kind(e), site, exc_detail(e))
            continue
        v, v2 = float(v), float(v2)
        val[name] = v
        if not (math.isfinite(v) and math.isfinite(v2)):
            r.fail("nonfinite", site, "d(x,y)=%r d(y,x)=%r for x=%s y=%s" % (v, v2, x.tolist()[:8], y.tolist()[:8]), relation=kind)
            continue
        if v < -1e-12:
            r.fail("negative", site, "d(x,y)=%r" % v)
        if abs(v - v2) > 1e-9 * max(1.0, abs(v)):
            r.fail("asymmetric", site, "d(x,y)=%r d(y,x)=%r" % (v, v2))
        if kind in ("proportional", "equal") and abs(v) > 1e-6:
            if name in ("jensen_shannon", "symmetric_kl") and abs(ref[name]) > 5e-7:
                # the EPS-smoothed definition itself does not vanish here (tiny mass, many empty coordinates);
                # the value is still compared with the definition below
                r.label("smoothing-dominated")
            else:
                r.fail("nonzero-on-proportional", site, "d(x, %g x)=%r" % (case["c"], v))
        if name in ("hellinger", "total_variation") and v > 1 + 1e-9:
            r.fail("out-of-range", site, "value %r > 1" % v)
        # definition-level oracle
        if name == "hellinger":
            if abs(v * v - ref["hellinger2"]) > 1e-12 + 1e-9 * ref["hellinger2"]:
                r.fail("value", site, "hellinger^2=%r, definition gives %r" % (v * v, ref["hellinger2"]))
        else:
            want = ref[name]
            if abs(v - want) > 1e-12 + 1e-9 * abs(want):
                r.fail("value", site, "got %r, definition gives %r" % (v, want))
    # triangle inequality
    for name in ("hellinger", "total_variation", "kantorovich1", "kantorovich2"):
        if name not in val:
            continue
        f = funcs[name]
        s1, a = call(f, arg(x), arg(z))
        s2, b = call(f, arg(z), arg(y))
        if s1 == "ok" and s2 == "ok" and math.isfinite(float(a)) and math.isfinite(float(b)):
            if val[name] > float(a) + float(b) + 1e-6:
                r.fail("triangle", "distances." + name, "d(x,y)=%r > d(x,z)+d(z,y)=%r" % (val[name], float(a) + float(b)))
        elif s1 == "ok" and s2 == "ok":
            r.fail("nonfinite", "distances." + name, "d(x,z)=%r d(z,y)=%r" % (a, b), relation="third-vector")
    # sparse vs dense
    f32, ez = case["f32"], case["explicit_zeros"]
    r.label("sparse:%s%s" % ("f32" if f32 else "f64", "+zeros" if ez else ""))
    i1, d1 = sparse_of(np, x0, f32, ez)
    i2, d2 = sparse_of(np, y0, f32, ez)
    xd = np.zeros(n); xd[i1] = d1.astype(np.float64)
    yd = np.zeros(n); yd[i2] = d2.astype(np.float64)
    sref = ref_values(np, xd, yd)
    union = (xd != 0) | (yd != 0)
    uref = ref_values(np, xd[union], yd[union])      # the sparse divergences are defined on the union of supports
    pairs = {
        "sparse_hellinger": (d.sparse_hellinger, "hellinger2"),
        "sparse_total_variation": (d.sparse_total_variation, "total_variation"),
        "sparse_jensen_shannon_divergence": (d.sparse_jensen_shannon_divergence, "jensen_shannon"),
        "sparse_symmetric_kl_divergence": (d.sparse_symmetric_kl_divergence, "symmetric_kl"),
    }
    for name, (f, key) in pairs.items():
        site = "distances." + name
        s, v = call(f, arg(i1), arg(d1), arg(i2), arg(d2))
        if s == "exc":
            r.fail(exc_kind(v), site, exc_detail(v))
            continue
        v = float(v)
        if not math.isfinite(v):
            r.fail("nonfinite", site, "value %r" % v)
            continue
        got = v * v if key == "hellinger2" else v
        if abs(got - uref[key]) > 1e-5 * max(1.0, abs(uref[key])):
            r.fail("sparse-vs-definition", site, "sparse gives %r, definition on the union support %r (ind1=%s ind2=%s)" % (got, uref[key], i1.tolist()[:8], i2.tolist()[:8]))
            continue
        want = sref[key]
        if abs(want - uref[key]) > 1e-6:
            r.label("smoothing-differs-on-empty-coordinates")   # dense smoothing of empty coordinates is visible: not comparable
        elif abs(got - want) > 1e-5 * max(1.0, abs(want)):
            r.fail("sparse-vs-dense", site, "sparse gives %r, dense definition %r (ind1=%s ind2=%s)" % (got, want, i1.tolist()[:8], i2.tolist()[:8]))
    for name, f, dense in (("sparse_sum", d.sparse_sum, xd + yd), ("sparse_diff", d.sparse_diff, xd - yd),
                           ("sparse_mul", d.sparse_mul, xd * yd)):
        site = "distances." + name
        s, out = call(f, arg(i1), arg(d1), arg(i2), arg(d2))
        if s == "exc":
            r.fail(exc_kind(out), site, exc_detail(out))
            continue
        ri, rd = np.asarray(out[0]), np.asarray(out[1], dtype=np.float64)
        want_i = np.flatnonzero(dense.astype(np.float32) != 0) if True else None
        # positions whose exact result is non-zero but rounds to zero in float32 cannot occur on this domain (|v| >= 1e-6)
        if ri.shape != rd.shape:
            r.fail("helper-shape", site, "indices %s vs values %s" % (ri.shape, rd.shape))
            continue
        if ri.shape[0] > 1 and not (np.diff(ri) > 0).all():
            r.fail("helper-indices", site, "indices not strictly increasing: %s (ind1=%s ind2=%s)" % (ri.tolist()[:10], i1.tolist()[:10], i2.tolist()[:10]))
            continue
        exact_nz = np.flatnonzero(dense != 0)
        if not np.array_equal(ri, exact_nz):
            # allow float32 cancellation: entries of the exact result below float32 resolution of the operands
            r.fail("helper-indices", site, "indices %s, dense non-zeros at %s (ind1=%s ind2=%s)" % (ri.tolist()[:10], exact_nz.tolist()[:10], i1.tolist()[:10], i2.tolist()[:10]))
            continue
        if not np.allclose(rd, dense[exact_nz], rtol=1e-6, atol=1e-30):
            r.fail("helper-values", site, "values %s vs dense %s" % (rd.tolist()[:6], dense[exact_nz].tolist()[:6]))
    return r


FAMILIES = {
    "pairs": Family(cases, check, {"quick": 20000, "thorough": 1000000}, {"quick": 8, "thorough": 16}),
}
