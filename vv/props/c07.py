"""C07 - the exact transport plan is a feasible, optimal coupling."""
import numpy as np
from hypothesis import strategies as st

from vv.core import Family, Result, call, exc_kind, exc_detail

RULE = ("Hypothesis draws (n, m), integer mass vectors (zeros allowed, optional sixth power = highly unbalanced), "
        "a cost specification (uniform / small integers with ties and zeros / rank-one / constant / euclidean or cosine "
        "distances between drawn points; scale 1e-3, 1, 1e3) and the memory layout (C or transposed view). "
        "Oracle: plan >= -1e-15, marginals to 1e-9, <plan,cost> within 1e-7 relative of a verified dual lower bound "
        "(HiGHS duals repaired by c-transforms; weak duality). Non-trivial: min(n, m) >= 2 and the cost matrix is not "
        "constant; distinct by SHA-1 of the case.")
ASSUMPTIONS = [
    "weak LP duality and floating-point evaluation of p.u + q.v (slack subtracted) give a valid lower bound on the optimum",
    "inputs are float64 probability vectors normalised by numpy before the call, as every caller in the repository does",
]

_lib = {}


def lib():
    if not _lib:
        from vectorizers.linear_optimal_transport import transport_plan
        _lib["tp"] = transport_plan
    return _lib


@st.composite
def cases(draw, tier):
    big = 64 if tier == "thorough" else 12
    size = st.one_of(st.integers(1, 4), st.integers(1, big))
    n, m = draw(size), draw(size)
    mass_kind = draw(st.sampled_from(["plain", "zeros", "unbalanced", "uniform"]))
    lo = 0 if mass_kind == "zeros" else 1

    def masses(k):
        if mass_kind == "uniform":
            return [1] * k
        if mass_kind == "zeros":
            return draw(st.lists(st.one_of(st.just(0), st.integers(0, 50)), min_size=k, max_size=k))
        return draw(st.lists(st.integers(lo, 50), min_size=k, max_size=k))

    p, q = masses(n), masses(m)
    cost_kind = draw(st.sampled_from(["uniform", "int", "int01", "rank1", "const", "euclid", "cosine"]))
    spec = {"kind": cost_kind}
    if n * m > 100:
        spec["seed"] = draw(st.integers(0, 2 ** 32 - 1))
    elif cost_kind in ("uniform", "int", "int01"):
        hi = {"uniform": 10 ** 6, "int": 5, "int01": 1}[cost_kind]
        spec["values"] = draw(st.lists(st.integers(0, hi), min_size=n * m, max_size=n * m))
    elif cost_kind == "rank1":
        spec["a"] = draw(st.lists(st.integers(0, 9), min_size=n, max_size=n))
        spec["b"] = draw(st.lists(st.integers(0, 9), min_size=m, max_size=m))
    elif cost_kind == "const":
        spec["c"] = draw(st.integers(0, 7))
    else:
        d = draw(st.integers(1, 3))
        spec["d"] = d
        spec["x"] = draw(st.lists(st.integers(-6, 6), min_size=n * d, max_size=n * d))
        spec["y"] = draw(st.lists(st.integers(-6, 6), min_size=m * d, max_size=m * d))
    return {"n": n, "m": m, "p": p, "q": q, "power": 6 if mass_kind == "unbalanced" else 1,
            "cost": spec, "scale": draw(st.sampled_from([1e-3, 1.0, 1e3])),
            "layout": draw(st.sampled_from(["C", "T"]))}


def build_cost(case):
    n, m, spec = case["n"], case["m"], case["cost"]
    k = spec["kind"]
    rng = np.random.default_rng(spec["seed"]) if "seed" in spec else None
    if k in ("uniform", "int", "int01"):
        hi = {"uniform": 10 ** 6, "int": 5, "int01": 1}[k]
        v = rng.integers(0, hi + 1, size=n * m) if rng is not None else np.array(spec["values"])
        C = v.reshape(n, m).astype(np.float64)
        if k == "uniform":
            C = C / 1e6
    elif k == "rank1":
        a = rng.integers(0, 10, n) if rng is not None else np.array(spec["a"])
        b = rng.integers(0, 10, m) if rng is not None else np.array(spec["b"])
        C = np.outer(a, b).astype(np.float64)
    elif k == "const":
        c = int(rng.integers(0, 8)) if rng is not None else spec["c"]
        C = np.full((n, m), float(c))
    else:
        if rng is not None:
            d = int(rng.integers(1, 4))
            x = rng.integers(-6, 7, (n, d)).astype(np.float64)
            y = rng.integers(-6, 7, (m, d)).astype(np.float64)
        else:
            d = spec["d"]
            x = np.array(spec["x"], dtype=np.float64).reshape(n, d)
            y = np.array(spec["y"], dtype=np.float64).reshape(m, d)
        if k == "euclid":
            C = np.sqrt(((x[:, None, :] - y[None, :, :]) ** 2).sum(-1))
        else:
            nx = np.sqrt((x ** 2).sum(1))
            ny = np.sqrt((y ** 2).sum(1))
            den = nx[:, None] * ny[None, :]
            with np.errstate(divide="ignore", invalid="ignore"):
                C = np.where(den > 0, 1.0 - (x @ y.T) / np.where(den > 0, den, 1.0), 1.0)
            C = np.maximum(C, 0.0)
    return C * case["scale"]


def masses(raw, power):
    v = np.array(raw, dtype=np.float64) ** power
    if v.sum() <= 0:
        v[0] = 1.0
    return v / v.sum()


def check(case):
    from vv.ref import ot
    r = Result()
    n, m = case["n"], case["m"]
    p, q = masses(case["p"], case["power"]), masses(case["q"], case["power"])
    C = build_cost(case)
    if case["layout"] == "T":
        arg = np.ascontiguousarray(C.T).T      # transposed view of an (m, n) C-contiguous array
    else:
        arg = np.ascontiguousarray(C)
    shape = "1xm" if n == 1 else "nx1" if m == 1 else "n>m" if n > m else "n<m" if n < m else "n=m"
    r.label("shape:" + shape, "cost:" + case["cost"]["kind"], "layout:" + case["layout"],
            "scale:%g" % case["scale"], "power:%d" % case["power"])
    if (p == 0).any() or (q == 0).any():
        r.label("zero-mass")
    r.nontrivial = min(n, m) >= 2 and float(C.max() - C.min()) > 0
    site = "transport_plan"
    status, P = call(lib()["tp"], p.copy(), q.copy(), arg)
    if status == "exc":
        r.fail(exc_kind(P), site, exc_detail(P))
        return r
    P = np.asarray(P)
    if P.shape != (n, m):
        r.fail("shape", site, "plan shape %s for p of %d and q of %d" % (P.shape, n, m))
        return r
    if not np.isfinite(P).all():
        r.fail("nonfinite", site, "plan contains NaN/inf")
        return r
    if P.min() < -1e-15:
        r.fail("negative", site, "min entry %.3e" % P.min())
    er, ec = np.abs(P.sum(1) - p).max(), np.abs(P.sum(0) - q).max()
    if er > 1e-9:
        r.fail("row-marginal", site, "max |rowsum - p| = %.3e" % er)
    if ec > 1e-9:
        r.fail("col-marginal", site, "max |colsum - q| = %.3e" % ec)
    if r.failures:
        return r
    got = float((P * C).sum())
    lower, res = ot.dual_lower_bound(p, q, C)
    tol = 1e-7 * abs(lower) + 1e-12 * float(C.max()) + 1e-300
    if got - lower > tol:
        # the certificate did not close the gap: only a strictly cheaper feasible plan is a verdict
        if res is not None and res.status == 0:
            X = res.x.reshape(n, m)
            feas = max(np.abs(X.sum(1) - p).max(), np.abs(X.sum(0) - q).max(), -X.min())
            lp_cost = float((X * C).sum())
            if feas <= 1e-9 and got - lp_cost > 1e-7 * abs(lp_cost) + 1e-9 * float(C.max()):
                r.fail("suboptimal", site, "<P,C>=%.12g but a feasible plan costs %.12g (dual bound %.12g)"
                       % (got, lp_cost, lower))
                return r
        r.inconclusive = "dual gap not closed"
    return r


@st.composite
def large_cases(draw, tier):
    """problems with more than 2^16 (and, in the thorough tier, more cells): index arithmetic on the flat arc order"""
    n, m = draw(st.sampled_from([(258, 256), (256, 258), (300, 300), (257, 255), (64, 1025)] + ([(520, 260)] if tier == "thorough" else [])))
    return {"n": n, "m": m, "p": [1] * n, "q": [1] * m, "power": 1, "mass_seed": draw(st.integers(0, 2 ** 31 - 1)),
            "cost": {"kind": draw(st.sampled_from(["uniform", "int", "euclid"])), "seed": draw(st.integers(0, 2 ** 32 - 1))},
            "scale": 1.0, "layout": draw(st.sampled_from(["C", "T"]))}


def check_large(case):
    rng = np.random.default_rng(case["mass_seed"])
    case = dict(case, p=[int(x) for x in rng.integers(1, 50, case["n"])], q=[int(x) for x in rng.integers(1, 50, case["m"])])
    r = check(case)
    r.labels = [l for l in r.labels if l.startswith(("cost:", "layout:"))] + ["cells:%d" % (case["n"] * case["m"])]
    return r


FAMILIES = {
    "plan": Family(strategy=cases, check=check,
                   examples={"quick": 2400, "thorough": 64000},
                   shards={"quick": 8, "thorough": 16}),
    "large": Family(strategy=large_cases, check=check_large, examples={"quick": 24, "thorough": 96}, shards={"quick": 4, "thorough": 8}),
}
