"""C13 - calls are free of side effects, repeatable, and leave nothing behind."""
import copy
import os
import shutil
import tempfile

from hypothesis import strategies as st

from vv import fam as F
from vv.core import Family, Result, call, exc_kind, exc_detail, digest
from vv.props.c02 import rows_equal

RULE = ("Model-based generation of call histories: for each estimator family Hypothesis draws parameters, data and a history of 3-10 "
        "operations from {fit(train), fit_transform(train), transform(X_i) for X_i drawn from a pool of batches over training and "
        "fresh items, transform(bad) where bad must raise (unhashable tokens, a NaN / negative distribution in a late block with a tiny "
        "memory_size, a generator that raises after k items), refit_twin}. The history is one generated value (a list of operations), "
        "so it shrinks and replays as a whole. The input and parameter objects are created once and reused by every call. After every "
        "operation: (a) every input object and every container passed as a constructor parameter is deep-equal to its snapshot (lists, "
        "tuples, dicts, sets, ndarrays by dtype/shape/bytes, sparse matrices by format and raw data/indices/indptr); (b) transform(X_i) "
        "equals the first result obtained for X_i under the current fitted model and the result of a single transform call on a deep "
        "copy of the freshly fitted model (every second input of the distribution families lists its support in another order); (c) a twin with the same integer random_state fitted "
        "on deep-copied data agrees to 1e-9 on outputs; (d) the private directory serving as TMPDIR and cachedir is empty. A call that "
        "must raise has to raise, and (a), (b), (d) must hold afterwards. Non-trivial: >= 2 transforms of different inputs after a fit, "
        "or a raising call followed by a transform, or a user-supplied parameter object; distinct by SHA-1 of the case.")
ASSUMPTIONS = ["only observable state is compared (outputs and constructor-parameter objects); re-assigning equal values to fitted attributes is not a violation",
               "faults are injected at the API boundary (invalid late items, raising generators); failures inside numpy/scipy (disk full) are not injected"]


def with_history(fam):
    @st.composite
    def s(draw, tier):
        spec = draw(fam.strategy(tier))
        n_tr, n_te = fam.n_items(spec["train"]), fam.n_items(spec["test"])
        pool = [("test", i) for i in range(n_te)] + [("train", i) for i in range(n_tr)]
        n_inputs = draw(st.integers(2 if isinstance(spec["test"], dict) else 1, 3))     # distribution families: >= 2 inputs (the second lists its support in another order)
        inputs = []
        for _ in range(n_inputs):
            k = draw(st.integers(1, min(6, len(pool))))
            inputs.append([list(p) for p in draw(st.lists(st.sampled_from(pool), min_size=k, max_size=k))])
        op = st.one_of(
            st.tuples(st.just("transform"), st.integers(0, n_inputs - 1)),
            st.tuples(st.just("transform"), st.integers(0, n_inputs - 1)),
            st.tuples(st.just("transform_train"), st.just(0)),
            st.tuples(st.just("fit"), st.just(0)),
            st.tuples(st.just("fit_transform"), st.just(0)),
            st.tuples(st.just("transform_bad"), st.integers(0, 2)),
            st.tuples(st.just("fit_bad"), st.integers(1, 6)),
            st.tuples(st.just("twin"), st.just(0)),
        )
        ops = draw(st.lists(op, min_size=3, max_size=10 if tier == "thorough" else 7))
        spec["inputs"] = inputs
        spec["ops"] = [["fit", 0]] + [list(o) for o in ops]
        if fam.name in ("iw", "rowdenoise", "cfc"):
            spec["storage"] = draw(st.sampled_from(["csr", "csc_unsorted", "csr_zeros"]))
        if fam.name.endswith("_cooc") and fam.name != "tree_cooc" and not spec["case"].get("prune") and draw(st.booleans()):
            # a user-supplied token dictionary (possibly together with a mask) is a parameter object the calls must not touch
            from vv import cooc_common as cc
            toks = sorted({t for d in cc.flat_docs(fam.kind, spec["case"]["docs"]) for t in d}, key=repr)
            if toks:
                spec["extra"]["token_dictionary"] = {t: i for i, t in enumerate(toks)}
        return spec
    return s


# ------------------------------------------------------------------------------------------------ deep comparison
def freeze(np, sp, o, depth=0):
    """a hashable / comparable structural snapshot"""
    if depth > 6:
        return ("deep",)
    if sp.issparse(o):
        fmt = o.getformat()
        if fmt in ("csr", "csc", "bsr"):
            return ("sparse", fmt, o.shape, o.data.dtype.str, o.data.tobytes(), o.indices.tobytes(), o.indptr.tobytes())
        if fmt == "coo":
            return ("sparse", fmt, o.shape, o.data.tobytes(), o.row.tobytes(), o.col.tobytes())
        if fmt == "lil":
            return ("sparse", fmt, o.shape, repr([list(r) for r in o.rows]), repr([list(d) for d in o.data]))
        return ("sparse", fmt, o.shape, o.tocsr().data.tobytes())
    if isinstance(o, np.ndarray):
        if o.dtype == object:
            return ("ndarray-object", o.shape, tuple(freeze(np, sp, x, depth + 1) for x in o.ravel()))
        return ("ndarray", o.dtype.str, o.shape, o.tobytes())
    if isinstance(o, dict):
        return ("dict", tuple(sorted(((repr(k), freeze(np, sp, v, depth + 1)) for k, v in o.items()))), tuple(repr(k) for k in o))
    if isinstance(o, (set, frozenset)):
        return ("set", tuple(sorted(repr(x) for x in o)))
    if isinstance(o, (list, tuple)):
        return (type(o).__name__, tuple(freeze(np, sp, x, depth + 1) for x in o))
    if isinstance(o, (str, int, float, bool, type(None), np.generic)):
        return ("scalar", repr(o))
    return ("other", type(o).__name__)


def containers_of_params(est):
    out = {}
    try:
        params = est.get_params(deep=False)
    except Exception:
        params = {k: v for k, v in vars(est).items() if not k.endswith("_") and not k.startswith("_")}
    import numpy as np
    for k, v in params.items():
        if isinstance(v, (dict, set, list, np.ndarray)):
            out[k] = v
    return out


def make_check(name):
    def check(spec):
        fam = F.get(name)
        L = F.lib()
        np, sp = L["np"], L["sp"]
        r = Result()
        r.label("family:" + name)
        private = tempfile.mkdtemp(prefix="vv-c13-")
        old_tmp = tempfile.tempdir
        tempfile.tempdir = private
        old_env = os.environ.get("TMPDIR")
        os.environ["TMPDIR"] = private
        try:
            _run(name, fam, spec, r, np, sp, private)
        finally:
            tempfile.tempdir = old_tmp
            if old_env is None:
                os.environ.pop("TMPDIR", None)
            else:
                os.environ["TMPDIR"] = old_env
            shutil.rmtree(private, ignore_errors=True)
        return r
    return check


def gather(spec, picks):
    if isinstance(spec["test"], dict):
        return {"W": [spec[src]["W"][i] for src, i in picks], "V": spec["test"]["V"]}
    return [spec[src][i] for src, i in picks]


def bad_input(name, fam, spec, which, np, sp):
    """an input that has to be rejected, or None if the family has no such input class"""
    if name in ("ngram", "skipgram") or (name.endswith("_cooc") and name != "tree_cooc" and not name.startswith(("timed", "multi"))):
        docs = [list(d) for d in (spec["test"] if not isinstance(spec["test"], dict) else [])][:2] + [[["unhashable"], ["list"]]]
        return docs, {}
    if name.startswith("wass_LOT_exact_spmatrix") or name in ("sinkhorn", "wass_LOT_sinkhorn_spmatrix"):
        W = np.asarray(spec["test"]["W"], dtype=np.float64)
        V = np.asarray(spec["test"]["V"], dtype=np.float64)
        if which == 0:
            return sp.csr_matrix(W[:, :-1]), {"vectors": V}       # wrong width: documented ValueError
        Wb = np.vstack([W, W])
        Wb[-1, 0] = np.nan
        return sp.csr_matrix(Wb), {"vectors": V}
    if name == "wass_LOT_exact_generator":
        W = np.asarray(spec["test"]["W"], dtype=np.float64)
        V = np.asarray(spec["test"]["V"], dtype=np.float64)

        def gen_d():
            for i in range(W.shape[0]):
                if i == max(1, W.shape[0] - 1):
                    raise RuntimeError("generator failed")
                yield W[i][W[i] > 0].copy()
        return gen_d(), {"vectors": (V[W[i] > 0].copy() for i in range(W.shape[0]))}
    return None


def _run(name, fam, spec, r, np, sp, private):
    site = name
    s, est = call(fam.make, copy.deepcopy(spec))
    if s == "exc":
        r.fail(exc_kind(est), site + ".__init__", exc_detail(est))
        return
    if hasattr(est, "cachedir"):
        est.cachedir = private
    # objects created once, reused by every call
    is_gen = name == "wass_LOT_exact_generator"
    train_X, train_kw = fam.args(spec, spec["train"])
    train_kw = fam.fit_kwargs(spec, spec["train"])
    inputs = []
    for j_, picks in enumerate(spec["inputs"]):
        data = gather(spec, [tuple(p) for p in picks])
        if isinstance(data, dict) and j_ >= 1 and (name.startswith("wass_LOT") or name == "sinkhorn"):
            # the same measures over a re-ordered vector set: a later call must not depend on the vectors of an earlier one
            m_ = len(data["V"])
            order = list(range(m_))[::-1]
            data = {"W": [[row[c] for c in order] for row in data["W"]], "V": [data["V"][c] for c in order]}
        X, kw = (fam.transform_args(spec, data, est) if hasattr(fam, "transform_args") else fam.args(spec, data))
        inputs.append({"data": data, "X": X, "kw": kw})
    params = containers_of_params(est)
    snap = {"params": {k: freeze(np, sp, v) for k, v in params.items()}}
    if not is_gen:
        snap["train"] = freeze(np, sp, [train_X, train_kw])
        snap["inputs"] = [freeze(np, sp, [i["X"], i["kw"]]) for i in inputs]
    if params:
        r.label("has-parameter-objects")
    memo = {}
    pristine = [None]
    fitted = False
    n_transforms_since_fit = set()
    raised_then_transform = False
    last_raised = False

    def check_invariants(after):
        for k, v in params.items():
            if freeze(np, sp, v) != snap["params"][k]:
                r.fail("parameter-object-mutated", site, "constructor parameter %r changed during %s" % (k, after), parameter=k)
        if not is_gen:
            if freeze(np, sp, [train_X, train_kw]) != snap["train"]:
                r.fail("input-mutated", site, "the training input changed during %s" % after, op=after.split("(")[0])
            for j, i in enumerate(inputs):
                if freeze(np, sp, [i["X"], i["kw"]]) != snap["inputs"][j]:
                    r.fail("input-mutated", site, "transform input %d changed during %s" % (j, after), op=after.split("(")[0])
        import gc
        gc.collect()        # objects that clean up after themselves when released are given the chance to do so
        left = sorted(os.listdir(private))
        if left:
            r.fail("tempdir-left", site, "%s left %r behind in the temporary directory" % (after, left[:4]), op=after.split("(")[0])
            for x in left:
                p = os.path.join(private, x)
                shutil.rmtree(p, ignore_errors=True) if os.path.isdir(p) else os.unlink(p)

    def fresh_inputs(i):
        """generators cannot be reused"""
        if is_gen:
            return fam.transform_args(spec, i["data"], est)
        return i["X"], i["kw"]

    for op, arg in spec["ops"]:
        if r.failures:
            break
        if op in ("fit", "fit_transform"):
            X, kw = (fam.args(spec, spec["train"])[0], fam.fit_kwargs(spec, spec["train"])) if is_gen else (train_X, train_kw)
            if is_gen and hasattr(est, "generator_n_distributions"):
                # the declared number of distributions follows the data (an earlier transform of another input changed it)
                est.generator_n_distributions = fam.n_items(spec["train"])
            s, out = call(getattr(est, op), X, **kw)
            if s == "exc":
                if name.endswith("_cooc") and name != "tree_cooc":
                    from vv import cooc_common as cc
                    if cc.degenerate(name[:-5], spec["case"]):
                        r.label("degenerate-corpus")
                        return
                if isinstance(out, (ValueError, NotImplementedError)) and not fitted:
                    r.label("fit-rejected")
                    return
                r.fail(exc_kind(out), site + "." + op, exc_detail(out))
                return
            fitted = True
            memo.clear()
            n_transforms_since_fit = set()
            # a pristine copy of the freshly fitted model: what a *single* transform call returns is computed on copies of it
            try:
                pristine[0] = copy.deepcopy(est)
            except Exception:
                pristine[0] = None          # estimators holding compiled closures cannot be copied: memo comparison only
            check_invariants("%s(train)" % op)
        elif op in ("transform", "transform_train"):
            if not fitted:
                continue
            if op == "transform_train":
                key = "train"
                if is_gen:
                    X, kw = fam.transform_args(spec, spec["train"], est)
                else:
                    X, kw = (train_X, train_kw) if not hasattr(fam, "transform_args") else (train_X, fam.transform_args(spec, spec["train"], est)[1])
                    if name == "iw":
                        kw = {}
            else:
                key = "input%d" % arg
                X, kw = fresh_inputs(inputs[arg])
            s, out = call(est.transform, X, **kw)
            if s == "exc":
                r.fail(exc_kind(out), site + ".transform", exc_detail(out))
                return
            rows = fam.canon(out, spec)
            if pristine[0] is not None and not is_gen:
                try:
                    single_est = copy.deepcopy(pristine[0])
                    s1, single = call(single_est.transform, X, **kw)
                except Exception:
                    s1, single = "skip", None
                if s1 == "ok":
                    msg = rows_equal(np, rows, fam.canon(single, spec), fam.exact, 1e-9, 1e-12, equal_nan=True)
                    if msg:
                        r.fail("history-dependent", site + ".transform", "transform(%s) after other calls differs from a single call on a fresh copy of the fitted model: %s" % (key, msg))
                    r.label("single-call-oracle")
            if key in memo:
                msg = rows_equal(np, rows, memo[key], fam.exact, 1e-9, 1e-12, equal_nan=True)
                if msg:
                    r.fail("not-repeatable", site + ".transform", "transform(%s) changed after other calls on the same fitted model: %s" % (key, msg))
            else:
                memo[key] = rows
            n_transforms_since_fit.add(key)
            if last_raised:
                raised_then_transform = True
            last_raised = False
            check_invariants("transform(%s)" % key)
        elif op == "transform_bad":
            if not fitted:
                continue
            bad = bad_input(name, fam, spec, arg, np, sp)
            if bad is None:
                continue
            s, out = call(est.transform, bad[0], **bad[1])
            if s == "ok":
                r.label("bad-input-accepted")
            else:
                last_raised = True
                r.label("raised:" + type(out).__name__)
            check_invariants("transform(bad)")
        elif op == "fit_bad":
            # a fit whose input fails part-way (the data generator raises in a later block): must raise, must leave nothing behind
            if name != "wass_LOT_exact_generator":
                continue
            W = np.asarray(spec["train"]["W"], dtype=np.float64)
            V = np.asarray(spec["train"]["V"], dtype=np.float64)
            k_fail = min(arg, W.shape[0] - 1)

            def failing():
                for i in range(W.shape[0]):
                    if i == k_fail:
                        raise RuntimeError("data source failed at item %d" % i)
                    yield W[i][W[i] > 0].copy()
            kw = fam.fit_kwargs(spec, spec["train"])
            kw["vectors"] = (V[W[i] > 0].copy() for i in range(W.shape[0]))
            s, out = call(est.fit, failing(), **kw)
            if s == "ok":
                r.label("bad-fit-accepted")
            else:
                r.label("fit-raised:" + type(out).__name__)
                last_raised = True
            del out
            fitted = False          # the state after a failed fit is not relied upon: a new fit comes first
            memo.clear()
            check_invariants("fit(bad)")
        elif op == "twin":
            if not fitted or is_gen:
                continue
            twin = fam.make(copy.deepcopy(spec))
            if hasattr(twin, "cachedir"):
                twin.cachedir = private
            Xc, kwc = copy.deepcopy(train_X), copy.deepcopy(train_kw)
            s, o1 = call(twin.fit_transform, Xc, **kwc)
            s2, o2 = call(est.fit_transform, train_X, **train_kw)
            memo.clear()
            if s == "exc" or s2 == "exc":
                e = o1 if s == "exc" else o2
                r.fail(exc_kind(e), site + ".fit_transform[twin]", exc_detail(e))
                return
            msg = rows_equal(np, fam.canon(o1, spec), fam.canon(o2, spec), fam.exact, 1e-9, 1e-9, equal_nan=True)
            if msg:
                r.fail("not-reproducible", site + ".fit", "two fits with the same integer random_state on the same data differ: %s" % msg,
                       **twin_tags(name, spec))
            check_invariants("fit_transform(twin)")
    r.nontrivial = len(n_transforms_since_fit) >= 2 or raised_then_transform or bool(params)


def twin_tags(name, spec):
    p = spec.get("params") or {}
    return {"default_reference": (name.startswith("wass_LOT") or name == "sinkhorn") and not spec.get("explicit_reference") and "generator" not in name,
            "algorithm": p.get("algorithm")}


FAMS13 = [("ngram", 150, 1500), ("skipgram", 80, 800), ("lz", 100, 1000), ("bpe_sequences", 100, 1000), ("bpe_matrix", 80, 800),
          ("hist", 100, 1000), ("kde", 60, 600), ("iw", 120, 1200), ("rowdenoise", 120, 1200), ("cfc", 120, 1200), ("edgelist", 100, 1000),
          ("tree_cooc", 100, 1000), ("token_cooc", 60, 600), ("timed_cooc", 50, 500), ("multi_cooc", 50, 500), ("ngram_cooc", 50, 500),
          ("wass_LOT_exact_spmatrix", 50, 500), ("wass_LOT_exact_lil", 50, 500), ("wass_LOT_exact_generator", 30, 300),
          ("wass_LOT_sinkhorn_spmatrix", 80, 600), ("wass_HeuristicLinearAlgebra_spmatrix", 60, 600), ("sinkhorn", 80, 600), ("approx", 60, 600)]
FAMILIES = {}
for _n, _q, _t in FAMS13:
    FAMILIES[_n] = Family(with_history(F.get(_n)), make_check(_n), {"quick": _q, "thorough": _t}, {"quick": 1, "thorough": 6})
