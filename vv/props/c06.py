"""C06 - n-gram, skip-gram and edge-list matrices hold exact counts; '+' merges models."""
from collections import Counter

from hypothesis import strategies as st

from vv.core import Family, Result, call, exc_kind, exc_detail
from vv.gen import corpora
from vv.ref import vocab, kernels

RULE = ("Ngram: corpora with documents shorter than n, n in 1..3, exact/subgrams, pruning, masking, fixed token / n-gram dictionaries; "
        "every cell of fit_transform and of transform (on a second corpus with unseen tokens) must equal an independent Counter of the "
        "n-grams of the kept-token sequence, through column_label_dictionary_, in both directions. Skipgram: radius 1-5, fixed/variable "
        "windows, three kernels; cell (doc, (a, b)) = summed kernel weight of b in the window after a (rtol 1e-6, float32). EdgeList: "
        "1-30 edges with duplicate pairs, dyadic weights, joint_space, fixed dictionaries with absent / missing labels, both layouts; "
        "cell = sum of values, shape = dictionary sizes, also for transform of another edge list. Merge: two unpruned unigram models "
        "with overlapping vocabularies; a+b must have the columns, training matrix (up to column order) and transform of one model "
        "fitted on the concatenation. Non-trivial: a repeated n-gram / duplicate edge / vocabularies neither equal nor disjoint; "
        "distinct by SHA-1 of the case.")
ASSUMPTIONS = ["the merged model's stored training matrix is read through the private _train_matrix attribute (as the repository's own test does)",
               "variable window radii: the library's variable_window_radii formula is taken as given and evaluated on independently computed frequencies"]

_L = {}


def lib():
    if not _L:
        import numpy as np
        import vectorizers as v
        from vectorizers._window_kernels import variable_window_radii
        _L.update(np=np, Ngram=v.NgramVectorizer, Skip=v.SkipgramVectorizer, Edge=v.EdgeListVectorizer, vwr=variable_window_radii)
    return _L


def est_kwargs(prune):
    kw = dict(prune)
    if "excluded_tokens" in kw:
        kw["excluded_tokens"] = set(kw["excluded_tokens"])
    return kw


def kept_sequences(docs, kept, mask):
    if mask is None:
        return [[t for t in d if t in kept] for d in docs]
    return [[t if t in kept else mask for t in d] for d in docs]


def grams_of(seq, n, behaviour):
    out = []
    sizes = [n] if behaviour == "exact" else range(1, n + 1)
    for i in range(len(seq)):
        for k in sizes:
            if i + k <= len(seq):
                out.append(tuple(seq[i:i + k]))
    return out


def dense(L, M):
    return L["np"].asarray(M.todense())


# ------------------------------------------------------------------------------------------------ ngram
@st.composite
def ngram_cases(draw, tier):
    c = draw(corpora.corpus(max_docs=5, max_len=12 if tier == "thorough" else 8, max_alpha=4))
    n = draw(st.sampled_from([1, 2, 2, 3]))
    c["ngram_size"] = n
    c["behaviour"] = draw(st.sampled_from(["exact", "subgrams"]))
    c["prune"] = draw(corpora.prune_params(c["docs"], c["token_type"], p_each=0.12)) if draw(st.booleans()) else {}
    c["mask"] = draw(st.sampled_from([None, None, "__M__"])) if c["token_type"] == "str" else None
    alpha = sorted({t for d in c["docs"] for t in d}, key=repr)
    extra = alpha + (["zz"] if c["token_type"] == "str" else [999])
    c["test"] = draw(st.lists(st.lists(st.sampled_from(extra), max_size=10), min_size=1, max_size=4))
    c["fixed"] = draw(st.sampled_from([None, None, "token_dictionary", "ngram_dictionary"])) if not c["prune"] else None
    return c


def check_ngram(case):
    L = lib()
    np = L["np"]
    r = Result()
    docs, n, beh, prune, mask = case["docs"], case["ngram_size"], case["behaviour"], case["prune"], case["mask"]
    site = "NgramVectorizer[n=%d,%s]" % (n, beh)
    r.label("n=%d" % n, beh, "mask:%s" % (mask is not None), "fixed:%s" % case["fixed"], "pruned:%s" % bool(prune))
    kw = est_kwargs(prune)
    alpha = sorted({t for d in docs for t in d}, key=repr)
    if case["fixed"] == "token_dictionary":
        kw["token_dictionary"] = {t: i for i, t in enumerate(alpha[:-1] or alpha)}
    elif case["fixed"] == "ngram_dictionary":
        seqs0 = docs
        allg = sorted(set(g for d in seqs0 for g in grams_of(d, n, beh)), key=repr)
        chosen = allg[::2] or allg
        kw["ngram_dictionary"] = {(g[0] if n == 1 else g): i for i, g in enumerate(chosen)}
    est = L["Ngram"](ngram_size=n, ngram_behaviour=beh, mask_string=mask, **kw)
    s, M = call(est.fit_transform, docs)
    if s == "exc":
        # corpora in which no n-gram survives have nothing to learn (C05 precondition)
        status, cnt = vocab.classify(docs, prune)
        possible = vocab.resolve(status, cnt, prune.get("max_unique_tokens"))
        if possible is None:
            # a frequency tie leaves the kept vocabulary (and hence whether any n-gram survives) ambiguous: not judged
            r.label("stage1-ambiguous")
            return r
        if "token_dictionary" in kw:
            possible = set(kw["token_dictionary"])
        if not any(len([t for t in d if t in possible or mask is not None]) >= (1 if beh == "subgrams" else n) for d in docs):
            r.label("no-ngram-in-corpus")
            return r
        r.fail(exc_kind(M), site + ".fit_transform", exc_detail(M))
        return r
    col = dict(est.column_label_dictionary_)
    # kept vocabulary: taken from the fitted token dictionary after validating it against the specification
    tokd = dict(est._token_dictionary_)
    kept = set(tokd) - ({mask} if mask is not None else set())
    if "token_dictionary" not in kw:
        status, cnt = vocab.classify(docs, prune)
        errs = vocab.check_kept(kept, status, cnt, prune.get("max_unique_tokens"))
        for kind, msg in errs:
            r.fail(kind, site + ".fit[vocabulary]", msg)
        if errs:
            return r

    def expected(X):
        seqs = kept_sequences(X, kept, mask)
        A = np.zeros((len(X), len(col)))
        explained = True
        for i, sq in enumerate(seqs):
            for g in grams_of(sq, n, beh):
                label = g[0] if n == 1 else g
                if label in col:
                    A[i, col[label]] += 1
        return A, seqs

    want, seqs = expected(docs)
    A = dense(L, M)
    if A.shape != want.shape:
        r.fail("shape", site + ".fit_transform", "shape %s, expected %s" % (A.shape, want.shape))
        return r
    inv = {v: k for k, v in col.items()}
    # columns of the recorded finding F12 (unigram columns in subgrams mode) are judged separately so that the
    # search continues behind it
    uni = np.array([bool(beh == "subgrams" and n > 1 and isinstance(inv.get(j), tuple) and len(inv.get(j)) == 1) for j in range(len(col))], dtype=bool)
    for sel, tag in ((~uni, False), (uni, True)):
        if sel.any() and not np.array_equal(A[:, sel], want[:, sel]):
            i, jj = np.argwhere(A[:, sel] != want[:, sel])[0]
            j = np.flatnonzero(sel)[jj]
            r.fail("count", site + ".fit_transform", "doc %d %r, n-gram %r: got %r, counted %r" % (i, seqs[i], inv.get(j), A[i, j], want[i, j]),
                   subgram_unigram=tag)
    # every n-gram of the training data that survives pruning must have a column when the dictionary was learned
    if "ngram_dictionary" not in kw and not prune:
        allg = set(g for sq in seqs for g in grams_of(sq, n, beh))
        missing = [g for g in allg if (g[0] if n == 1 else g) not in col]
        if missing:
            r.fail("missing-column", site + ".fit", "n-grams without a column: %r" % missing[:4])
    test = case["test"]
    s, T = call(est.transform, test)
    if s == "exc":
        r.fail(exc_kind(T), site + ".transform", exc_detail(T))
    else:
        want_t, seqs_t = expected(test)
        At = dense(L, T)
        if At.shape != want_t.shape:
            r.fail("shape", site + ".transform", "shape %s, expected %s" % (At.shape, want_t.shape))
        else:
            for sel, tag in ((~uni, False), (uni, True)):
                if sel.any() and not np.array_equal(At[:, sel], want_t[:, sel]):
                    i, jj = np.argwhere(At[:, sel] != want_t[:, sel])[0]
                    j = np.flatnonzero(sel)[jj]
                    r.fail("count", site + ".transform", "doc %d %r -> %r, n-gram %r: got %r, counted %r"
                           % (i, test[i], seqs_t[i], inv.get(j), At[i, j], want_t[i, j]), subgram_unigram=tag)
    r.nontrivial = bool((want >= 2).any()) or bool(len(docs) > 1 and (want.sum(0) >= 2).any())
    return r


# ------------------------------------------------------------------------------------------------ skipgram
@st.composite
def skip_cases(draw, tier):
    c = draw(corpora.corpus(max_docs=4, max_len=12 if tier == "thorough" else 8, max_alpha=4))
    c["radius"] = draw(st.integers(1, 5))
    c["window"] = draw(st.sampled_from(["fixed", "fixed", "variable"]))
    c["power"] = draw(st.sampled_from([0.75, 0.5]))
    c["kernel"] = draw(st.sampled_from(["flat", "harmonic", "geometric"]))
    c["prune"] = draw(corpora.prune_params(c["docs"], c["token_type"], p_each=0.1)) if draw(st.booleans()) else {}
    return c


def check_skip(case):
    L = lib()
    np = L["np"]
    r = Result()
    docs, prune = case["docs"], case["prune"]
    site = "SkipgramVectorizer[%s,%s]" % (case["window"], case["kernel"])
    r.label("window:" + case["window"], "kernel:" + case["kernel"], "pruned:%s" % bool(prune))
    kw = dict(prune)
    if "excluded_tokens" in kw:
        kw["ignored_tokens"] = set(kw.pop("excluded_tokens"))
    wargs = {"power": case["power"]} if case["window"] == "variable" else {}
    est = L["Skip"](window_radius=case["radius"], window_function=case["window"], kernel_function=case["kernel"],
                    window_args=wargs, kernel_args={}, **kw)
    s, M = call(est.fit_transform, docs)
    status, cnt = vocab.classify(docs, prune)
    if s == "exc":
        if not any(v != "drop" for v in status.values()) or vocab.resolve(status, cnt, prune.get("max_unique_tokens")) in (None, set()):
            r.label("empty-vocabulary")
            return r
        kept0 = vocab.resolve(status, cnt, prune.get("max_unique_tokens"))
        if not any(len([t for t in d if t in kept0]) >= 2 for d in docs):
            r.label("no-pair-in-corpus")
            return r
        r.fail(exc_kind(M), site + ".fit_transform", exc_detail(M))
        return r
    tokd = dict(est._token_dictionary_)
    kept = set(tokd)
    errs = vocab.check_kept(kept, status, cnt, prune.get("max_unique_tokens"))
    for kind, msg in errs:
        r.fail(kind, site + ".fit[vocabulary]", msg)
    if errs:
        return r
    order = sorted(kept)
    total = sum(len(d) for d in docs)
    freq = np.array([np.float32(cnt[t]) / total for t in order], dtype=np.float32)
    if case["window"] == "fixed":
        radius = {t: case["radius"] for t in order}
    else:
        rr = L["vwr"](case["radius"], freq, None, case["power"])
        radius = {t: int(rr[i]) for i, t in enumerate(order)}
    col = dict(est.column_label_dictionary_)

    def expected(X):
        out = []
        for d in X:
            sq = [t for t in d if t in kept]
            c = Counter()
            for i, a in enumerate(sq):
                win = sq[i + 1:i + 1 + radius[a]]
                w = kernels.weights(case["kernel"], len(win))
                for b, wt in zip(win, w):
                    c[(a, b)] += wt
            out.append(c)
        return out

    want = expected(docs)
    A = dense(L, M)
    allpairs = set(p for c in want for p, v in c.items() if v > 0)
    if set(col) != allpairs:
        r.fail("columns", site + ".fit", "columns %r, pairs with positive weight %r" % (sorted(col, key=repr)[:6], sorted(allpairs, key=repr)[:6]))
        return r
    if A.shape != (len(docs), len(col)):
        r.fail("shape", site + ".fit_transform", "shape %s, expected (%d, %d)" % (A.shape, len(docs), len(col)))
        return r
    # column order = head index * n + tail index
    n_tok = len(order)
    ids = sorted(col, key=lambda p: tokd[p[0]] * n_tok + tokd[p[1]])
    if [col[p] for p in ids] != list(range(len(ids))):
        r.fail("column-order", site + ".fit", "pair columns are not in (head, tail) index order")
    W = np.zeros(A.shape)
    for i, c in enumerate(want):
        for p, v in c.items():
            W[i, col[p]] = v
    if not np.allclose(A, W, rtol=1e-6, atol=1e-7):
        i, j = np.argwhere(~np.isclose(A, W, rtol=1e-6, atol=1e-7))[0]
        inv = {v: k for k, v in col.items()}
        r.fail("weight", site + ".fit_transform", "doc %d, pair %r: got %r, summed kernel weight %r" % (i, inv[j], A[i, j], W[i, j]))
    r.nontrivial = any(v for c in want for p, v in c.items() if sum(1 for c2 in want if p in c2) >= 1 and v > 1) or len(allpairs) >= 2
    return r


# ------------------------------------------------------------------------------------------------ edge list
LABELS = {"str": ["a", "b", "c", "d", "e"], "int": [1, 2, 3, 5, 8]}


@st.composite
def edge_cases(draw, tier):
    lt = draw(st.sampled_from(["str", "int"]))
    labs = LABELS[lt]
    val = st.sampled_from([1, 2, 3, 0.5, 0.25, -1, 10])
    edge = st.tuples(st.sampled_from(labs[:4]), st.sampled_from(labs[:4]), val).map(list)
    train = draw(st.lists(edge, min_size=1, max_size=30 if tier == "thorough" else 12))
    test = draw(st.lists(st.tuples(st.sampled_from(labs), st.sampled_from(labs), val).map(list), min_size=1, max_size=12))
    joint = draw(st.booleans())
    fixed = draw(st.sampled_from(["none", "none", "row", "col", "both"]))
    if joint and fixed == "both":
        fixed = "row"
    sub = draw(st.lists(st.sampled_from(labs), min_size=1, max_size=5, unique=True))
    sub2 = draw(st.lists(st.sampled_from(labs), min_size=1, max_size=5, unique=True))
    return {"label_type": lt, "train": train, "test": test, "joint_space": joint, "fixed": fixed,
            "row_labels": sorted(sub), "col_labels": sorted(sub2), "transpose": draw(st.booleans()),
            # user dictionaries need not be contiguous: index = gap * position + offset
            "index_gap": draw(st.sampled_from([1, 1, 2, 3])), "index_offset": draw(st.sampled_from([0, 0, 1]))}


def check_edge(case):
    L = lib()
    np = L["np"]
    r = Result()
    site = "EdgeListVectorizer[%s%s]" % ("joint" if case["joint_space"] else "split", "," + case["fixed"] if case["fixed"] != "none" else "")
    r.label("joint:%s" % case["joint_space"], "fixed:" + case["fixed"], "labels:" + case["label_type"])
    kw = {"joint_space": case["joint_space"]}
    g, o = case.get("index_gap", 1), case.get("index_offset", 0)
    if case["fixed"] in ("row", "both"):
        kw["row_label_dictionary"] = {t: g * i + o for i, t in enumerate(case["row_labels"])}
    if case["fixed"] in ("col", "both"):
        kw["column_label_dictionary"] = {t: g * i + o for i, t in enumerate(case["col_labels"])}
    if g != 1 or o != 0:
        r.label("gapped-dictionary")

    def layout(edges):
        if case["transpose"] and len(edges) != 3:
            return [[e[0] for e in edges], [e[1] for e in edges], [e[2] for e in edges]]
        return [list(e) for e in edges]
    est = L["Edge"](**kw)
    s, M = call(est.fit_transform, layout(case["train"]))
    if s == "exc":
        r.fail(exc_kind(M), site + ".fit_transform", exc_detail(M))
        return r
    rowd, cold = dict(est.row_label_dictionary_), dict(est.column_label_dictionary_)
    # dictionaries: learned ones are the sorted unique labels (joint: of both columns)
    tr = case["train"]
    if case["joint_space"]:
        if case["fixed"] == "none":
            want_d = {t: i for i, t in enumerate(sorted({e[0] for e in tr} | {e[1] for e in tr}))}
        else:
            want_d = kw.get("row_label_dictionary") or kw.get("column_label_dictionary")
        want_r = want_c = want_d
    else:
        want_r = kw.get("row_label_dictionary") or {t: i for i, t in enumerate(sorted({e[0] for e in tr}))}
        want_c = kw.get("column_label_dictionary") or {t: i for i, t in enumerate(sorted({e[1] for e in tr}))}
    norm = lambda d: {(k.item() if hasattr(k, "item") else k): int(v) for k, v in d.items()}
    if norm(rowd) != want_r or norm(cold) != want_c:
        r.fail("dictionaries", site + ".fit", "row dict %r / col dict %r, expected %r / %r" % (norm(rowd), norm(cold), want_r, want_c))
        return r

    def expected(edges):
        # the fitted space is (largest row index + 1) x (largest column index + 1): user dictionaries may have gaps
        A = np.zeros((max(want_r.values()) + 1, max(want_c.values()) + 1))
        for a, b, v in edges:
            if a in want_r and b in want_c:
                A[want_r[a], want_c[b]] += v
        return A
    for name, edges, mat in (("fit_transform", tr, M),):
        A = dense(L, mat)
        W = expected(edges)
        if A.shape != W.shape:
            r.fail("shape", site + "." + name, "shape %s, dictionaries give %s" % (A.shape, W.shape))
        elif not np.array_equal(A, W):
            r.fail("sum", site + "." + name, "cells differ from the summed edge values")
    s, T = call(est.transform, layout(case["test"]))
    if s == "exc":
        r.fail(exc_kind(T), site + ".transform", exc_detail(T))
    else:
        A = dense(L, T)
        W = expected(case["test"])
        if A.shape != W.shape:
            r.fail("shape", site + ".transform", "shape %s, dictionaries give %s" % (A.shape, W.shape))
        elif not np.array_equal(A, W):
            r.fail("sum", site + ".transform", "cells differ from the summed edge values")
    pairs = Counter((e[0], e[1]) for e in tr)
    r.nontrivial = any(v >= 2 for v in pairs.values())
    return r


# ------------------------------------------------------------------------------------------------ merge
@st.composite
def merge_cases(draw, tier):
    tt = draw(st.sampled_from(["str", "int"]))
    alpha = (corpora.STR_ALPHABET if tt == "str" else corpora.INT_ALPHABET)[:6]
    a_alpha = draw(st.lists(st.sampled_from(alpha), min_size=1, max_size=5, unique=True))
    b_alpha = draw(st.lists(st.sampled_from(alpha), min_size=1, max_size=5, unique=True))
    doc = lambda al: st.lists(st.sampled_from(al), max_size=8)
    Xa = draw(st.lists(doc(a_alpha), min_size=1, max_size=4))
    Xb = draw(st.lists(doc(b_alpha), min_size=1, max_size=4))
    if not any(Xa):
        Xa[0] = [a_alpha[0]]
    if not any(Xb):
        Xb[0] = [b_alpha[0]]
    test = draw(st.lists(doc(alpha + alpha[:1]), min_size=1, max_size=4))
    # a second right-hand operand: the left model takes part in more than one sum
    c_alpha = draw(st.lists(st.sampled_from(alpha), min_size=1, max_size=5, unique=True))
    Xc = draw(st.lists(doc(c_alpha), min_size=1, max_size=3))
    if not any(Xc):
        Xc[0] = [c_alpha[0]]
    return {"token_type": tt, "Xa": Xa, "Xb": Xb, "Xc": Xc, "test": test}


def check_merge(case):
    r = _check_merge_once(case, case["Xb"], first=None)
    if r.failures or "Xc" not in case:
        return r
    # the same left model in a second sum (history: a + b happened before a + c)
    r2 = _check_merge_once(case, case["Xc"], first=case["Xb"])
    for f in r2.failures:
        f.site += "[second sum with the same left operand]"
    r.failures.extend(r2.failures)
    r.nontrivial = r.nontrivial or r2.nontrivial
    return r


def _check_merge_once(case, Xb, first):
    L = lib()
    np = L["np"]
    r = Result()
    site = "NgramVectorizer.__add__"
    Xa, test = case["Xa"], case["test"]
    va = {t for d in Xa for t in d}
    vb = {t for d in Xb for t in d}
    r.nontrivial = bool(va & vb) and va != vb
    r.label("overlap:%s" % ("equal" if va == vb else "disjoint" if not (va & vb) else "partial"))
    a, b, c = L["Ngram"](), L["Ngram"](), L["Ngram"]()
    s1, _ = call(a.fit, Xa)
    s2, _ = call(b.fit, Xb)
    s3, _ = call(c.fit, Xa + Xb)
    if "exc" in (s1, s2, s3):
        r.fail("exception", site + "[fit]", "fitting the operands failed")
        return r
    if first is not None:
        other = L["Ngram"]()
        call(other.fit, first)
        call(lambda: a + other)
        snapshot = (dict(a.column_label_dictionary_), dict(a.column_index_dictionary_), a._train_matrix.shape)
    s, m = call(lambda: a + b)
    if first is not None and snapshot != (dict(a.column_label_dictionary_), dict(a.column_index_dictionary_), a._train_matrix.shape):
        r.fail("operand-mutated", site, "the left operand's dictionaries changed during the sum")
    if s == "exc":
        r.fail(exc_kind(m), site, exc_detail(m))
        return r
    cols_m, cols_c = dict(m.column_label_dictionary_), dict(c.column_label_dictionary_)
    if set(cols_m) != set(cols_c):
        r.fail("columns", site, "merged columns %r, concatenated-fit columns %r" % (sorted(cols_m, key=repr), sorted(cols_c, key=repr)))
        return r
    if sorted(cols_m.values()) != list(range(len(cols_m))):
        r.fail("columns", site, "merged column indices are not 0..n-1")
        return r
    if {v: k for k, v in cols_m.items()} != dict(m.column_index_dictionary_):
        r.fail("index-dictionary", site, "column_index_dictionary_ is not the inverse of column_label_dictionary_")
    order = sorted(cols_c, key=repr)

    def aligned(M, cols):
        A = dense(L, M)
        return A[:, [cols[t] for t in order]] if A.shape[1] == len(cols) else None
    Am, Ac = aligned(m._train_matrix, cols_m), aligned(c._train_matrix, cols_c)
    if Am is None or Am.shape != Ac.shape or not np.array_equal(Am, Ac):
        r.fail("train-matrix", site, "stored training matrix of a+b differs from the one of fit(Xa+Xb) after aligning columns")
    s, Tm = call(m.transform, test)
    s2, Tc = call(c.transform, test)
    if s == "exc":
        r.fail(exc_kind(Tm), site + ".transform", exc_detail(Tm))
        return r
    want = np.zeros((len(test), len(order)))
    for i, d in enumerate(test):
        for t in d:
            if t in cols_c:
                want[i, order.index(t)] += 1
    Tm_a = aligned(Tm, cols_m)
    if Tm_a is None or Tm_a.shape != want.shape or not np.array_equal(Tm_a, want):
        r.fail("transform", site + ".transform", "(a+b).transform does not count the tokens of both vocabularies: got %s, counted %s"
               % (None if Tm_a is None else Tm_a.tolist()[:3], want.tolist()[:3]))
    if s2 == "ok":
        Tc_a = aligned(Tc, cols_c)
        if Tc_a is None or not np.array_equal(Tc_a, want):
            r.fail("transform", "NgramVectorizer.transform", "fit(Xa+Xb).transform differs from the independent count")
    return r


FAMILIES = {
    "ngram": Family(ngram_cases, check_ngram, {"quick": 1200, "thorough": 20000}, {"quick": 4, "thorough": 16}),
    "skipgram": Family(skip_cases, check_skip, {"quick": 500, "thorough": 8000}, {"quick": 4, "thorough": 16}),
    "edgelist": Family(edge_cases, check_edge, {"quick": 1200, "thorough": 20000}, {"quick": 4, "thorough": 16}),
    "merge": Family(merge_cases, check_merge, {"quick": 600, "thorough": 8000}, {"quick": 4, "thorough": 16}),
}
