"""Core data types shared by the runner, the shard executor and the property modules.

A *case* is plain JSON-able data produced by a Hypothesis strategy.  A property module
exposes FAMILIES: name -> Family(strategy, check, examples).  `check(case)` executes the
library and the oracle and returns a Result.
"""
import hashlib
import json
import math
import os
import re
import traceback

VERIF_DIR = os.path.dirname(os.path.dirname(os.path.abspath(__file__)))
REPO_DIR = os.environ.get("VERIF_REPO", "/repo")


class Failure:
    """One way in which a case contradicted the property.

    kind : short class of the contradiction ("shape", "value", "exception:IndexError", ...)
    site : the call site / estimator path it was observed at
    tags : dict of facts about the case computed by the check (used by known-finding predicates)
    detail : human readable explanation
    """

    __slots__ = ("kind", "site", "tags", "detail")

    def __init__(self, kind, site, detail="", tags=None):
        self.kind = str(kind)
        self.site = str(site)
        self.detail = str(detail)[:2000]
        self.tags = dict(tags or {})

    def signature(self):
        return (self.kind, self.site)

    def to_json(self):
        return {"kind": self.kind, "site": self.site, "tags": self.tags, "detail": self.detail}

    def __repr__(self):
        return "Failure(%s @ %s: %s)" % (self.kind, self.site, self.detail[:300])


class Result:
    __slots__ = ("failures", "nontrivial", "labels", "inconclusive")

    def __init__(self, failures=None, nontrivial=False, labels=None, inconclusive=None):
        self.failures = list(failures or [])
        self.nontrivial = bool(nontrivial)
        self.labels = list(labels or [])
        self.inconclusive = inconclusive

    def fail(self, kind, site, detail="", **tags):
        self.failures.append(Failure(kind, site, detail, tags))

    def label(self, *names):
        self.labels.extend(names)


class Family:
    """strategy(tier) -> hypothesis strategy;  check(case) -> Result.

    examples: {"quick": n, "thorough": n} total across shards.
    shards:   {"quick": k, "thorough": k} number of parallel processes.
    env:      extra environment for the shard process.
    enumerate_cases(tier): optional iterator of cases run exhaustively (no Hypothesis);
                 the family then reports an exhaustive sub-space.
    """

    def __init__(self, strategy=None, check=None, examples=None, shards=None, env=None,
                 enumerate_cases=None, exhaustive_name=None, max_shrink_s=None):
        self.strategy = strategy
        self.check = check
        self.examples = examples or {"quick": 200, "thorough": 2000}
        self.shards = shards or {"quick": 4, "thorough": 16}
        self.env = env or {}
        self.enumerate_cases = enumerate_cases
        self.exhaustive_name = exhaustive_name


class LibraryError(Exception):
    pass


def call(fn, *a, **k):
    """Run library code; return ("ok", value) or ("exc", exception)."""
    try:
        return "ok", fn(*a, **k)
    except Exception as e:  # library exceptions are data for the oracle
        e._vv_tb = traceback.format_exc(limit=6)
        e.__traceback__ = None          # do not keep the library's frames (and their temporaries) alive
        return "exc", e


def exc_kind(e):
    return "exception:%s" % type(e).__name__


def exc_detail(e):
    return "%s: %s\n%s" % (type(e).__name__, str(e)[:500], getattr(e, "_vv_tb", "")[-1200:])


def _default(o):
    try:
        import numpy as np
        if isinstance(o, np.generic):
            return o.item()
        if isinstance(o, np.ndarray):
            return o.tolist()
    except Exception:
        pass
    if isinstance(o, (set, frozenset)):
        return sorted(o, key=repr)
    if isinstance(o, tuple):
        return list(o)
    return repr(o)


def canon_json(obj):
    return json.dumps(obj, sort_keys=True, default=_default, allow_nan=True, separators=(",", ":"))


def digest(obj):
    return hashlib.sha1(canon_json(obj).encode("utf-8", "surrogatepass")).hexdigest()


def derive_seed(base, *parts):
    h = hashlib.sha256(("%d|" % int(base) + "|".join(str(p) for p in parts)).encode()).digest()
    return int.from_bytes(h[:8], "big") % (2 ** 63)


def truncate(obj, limit=1500):
    s = canon_json(obj)
    if len(s) <= limit:
        return json.loads(s)
    return {"truncated_json": s[:limit], "full_length": len(s)}


# ---------------------------------------------------------------------------------------
# known findings

class KnownFindings:
    def __init__(self, path=None):
        path = path or os.path.join(VERIF_DIR, "known_findings.json")
        self.entries = []
        self.fixed = []
        if os.path.exists(path):
            with open(path) as f:
                data = json.load(f)
            self.entries = data.get("findings", [])
            self.fixed = data.get("fixed", [])

    def match(self, prop_id, failure):
        """Return the finding id that lists this failure, or None."""
        for e in self.entries:
            if e["property"] != prop_id:
                continue
            if e.get("kind") is not None and e["kind"] != failure.kind:
                continue
            if e.get("site") is not None and e["site"] != failure.site:
                continue
            if e.get("site_regex") is not None and not re.fullmatch(e["site_regex"], failure.site):
                continue
            when = e.get("when") or {}
            if all(failure.tags.get(k) == v for k, v in when.items()):
                return e["id"]
        return None

    def describe(self, fid):
        for e in self.entries:
            if e["id"] == fid:
                return e["description"]
        return ""


def isclose(a, b, rtol, atol):
    if math.isnan(a) or math.isnan(b):
        return False
    return abs(a - b) <= atol + rtol * max(abs(a), abs(b))
