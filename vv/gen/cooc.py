"""Window / kernel specifications for the co-occurrence family and their translation to constructor arguments."""
from hypothesis import strategies as st

KERNELS = {"token": ["flat", "harmonic", "geometric"], "ngram": ["flat", "harmonic", "geometric"],
           "timed": ["flat", "geometric"], "multi": ["flat", "geometric"]}


@st.composite
def window_specs(draw, kind, max_k=3, max_radius=5, allow_variable=True, allow_offset=True, allow_normalize=True):
    k = draw(st.integers(1, max_k))
    kernel = draw(st.sampled_from(KERNELS[kind]))
    use_power = kernel == "geometric" and draw(st.booleans())
    specs = []
    for _ in range(k):
        sp = {"kernel": kernel,
              "radius": draw(st.one_of(st.integers(1, 3), st.integers(0, max_radius))),
              "orientation": draw(st.sampled_from(["before", "after", "directional"])),
              "mix": draw(st.sampled_from([1.0, 1.0, 0.5, 0.25, 2.0])),
              "window": "fixed"}
        if allow_variable and kind != "multi" and draw(st.sampled_from([False, False, True])):
            sp["window"] = "variable"
            sp["window_power"] = draw(st.sampled_from([0.75, 0.5]))
        # each window specification may give or omit each kernel argument on its own (an omitted key means the default)
        if allow_offset and draw(st.sampled_from([True, True, False])):
            sp["offset"] = draw(st.sampled_from([0, 0, 0, 1, 2]))
        if allow_normalize and draw(st.sampled_from([True, True, False])):
            sp["normalize"] = draw(st.booleans())
        if use_power:
            sp["power"] = draw(st.sampled_from([0.5, 0.9, 0.25]))
        specs.append(sp)
    return specs


def estimator_kwargs(specs):
    kw = {
        "window_radii": [sp["radius"] for sp in specs],
        "window_functions": [sp["window"] for sp in specs],
        "kernel_functions": [sp["kernel"] for sp in specs],
        "window_orientations": [sp["orientation"] for sp in specs],
        "mix_weights": [sp["mix"] for sp in specs],
        "window_args": [({"power": sp["window_power"]} if sp["window"] == "variable" else {}) for sp in specs],
    }
    kargs = []
    for sp in specs:
        d = {}
        if "normalize" in sp:
            d["normalize"] = bool(sp["normalize"])
        if "offset" in sp:
            d["offset"] = int(sp["offset"])
        if "power" in sp:
            d["power"] = float(sp["power"])
        kargs.append(d)
    kw["kernel_args"] = kargs
    return kw


def spec_labels(specs, normalize_windows):
    out = ["k=%d" % len(specs), "kernel:" + specs[0]["kernel"], "normalize_windows:%s" % normalize_windows]
    for sp in specs:
        out.append("window:" + sp["window"])
        out.append("orientation:" + sp["orientation"])
        if sp.get("offset"):
            out.append("offset>0")
        if sp.get("normalize"):
            out.append("kernel-normalize")
    return sorted(set(out))
