"""Hypothesis strategies for token corpora and pruning parameters (plain JSON-able values)."""
from collections import Counter

from hypothesis import strategies as st

STR_ALPHABET = ["a", "b", "c", "ab", "ba", "d1", "e", "f"]
INT_ALPHABET = [3, 7, 11, 20, 21, 100, 5, 42]
REGEXES = ["a", "a.*", "[ab]", "[ab]+", ".", ".*1", "b|c", "ab?"]


@st.composite
def corpus(draw, max_docs=5, max_len=10, max_alpha=6, min_docs=1, token_types=("str", "int"), allow_empty_first=True):
    ttype = draw(st.sampled_from(token_types))
    k = draw(st.integers(1, max_alpha))
    alpha = (STR_ALPHABET if ttype == "str" else INT_ALPHABET)[:k]
    tok = st.sampled_from(alpha)
    docs = draw(st.lists(st.lists(tok, max_size=max_len), min_size=min_docs, max_size=max_docs))
    if not any(docs):
        docs[-1] = [alpha[0]]
    if not allow_empty_first and not docs[0]:
        docs[0] = [alpha[0]]
    return {"token_type": ttype, "docs": docs}


def counts(docs):
    flat = [t for d in docs for t in d]
    return Counter(flat), Counter(t for d in docs for t in set(d)), len(flat), len(docs)


@st.composite
def prune_params(draw, docs, token_type, allow_regex=True, allow_freq=True, allow_top=True, p_each=0.3,
                 doc_keys=("min_document_occurrences", "max_document_occurrences",
                           "min_document_frequency", "max_document_frequency")):
    """Pruning parameters whose bounds sit on or next to the actual counts (equality is frequent)."""
    cnt, dcnt, total, ndocs = counts(docs)
    cvals = sorted(set(cnt.values())) or [1]
    dvals = sorted(set(dcnt.values())) or [1]
    near = lambda vals, lo: st.one_of(st.sampled_from(vals), st.sampled_from(vals).map(lambda v: max(lo, v - 1)),
                                      st.sampled_from(vals).map(lambda v: v + 1))
    out = {}

    def maybe(p=p_each):
        return draw(st.floats(0, 1)) < p

    # occurrences XOR frequency for each side
    if maybe():
        if allow_freq and draw(st.booleans()):
            c = draw(near(cvals, 0))
            out["min_frequency"] = draw(st.sampled_from([c / total, (c - 0.5) / total, (c + 0.5) / total])) if total else 0.0
            out["min_frequency"] = max(0.0, out["min_frequency"])
        else:
            out["min_occurrences"] = draw(near(cvals, 1))
    if maybe():
        if allow_freq and draw(st.booleans()):
            c = draw(near(cvals, 0))
            out["max_frequency"] = min(1.0, max(0.0, draw(st.sampled_from([c / total, (c - 0.5) / total, (c + 0.5) / total])))) if total else 1.0
        else:
            out["max_occurrences"] = draw(near(cvals, 1))
    if doc_keys:
        if maybe():
            if allow_freq and draw(st.booleans()):
                c = draw(near(dvals, 0))
                out[doc_keys[2]] = max(0.0, draw(st.sampled_from([c / ndocs, (c - 0.5) / ndocs])))
            else:
                out[doc_keys[0]] = draw(near(dvals, 1))
        if maybe():
            if allow_freq and draw(st.booleans()):
                c = draw(near(dvals, 0))
                out[doc_keys[3]] = min(1.0, max(0.0, draw(st.sampled_from([c / ndocs, (c + 0.5) / ndocs]))))
            else:
                out[doc_keys[1]] = draw(near(dvals, 1))
    toks = sorted(cnt, key=repr)
    if toks and maybe():
        out["excluded_tokens"] = draw(st.lists(st.sampled_from(toks), max_size=2, unique=True))
    if allow_regex and token_type == "str" and maybe(0.2):
        out["excluded_token_regex"] = draw(st.sampled_from(REGEXES))
    if allow_top and maybe():
        out["max_unique_tokens"] = draw(st.integers(1, max(1, len(toks))))
    return out


@st.composite
def corpus_and_prune(draw, p_each=0.3, **kw):
    c = draw(corpus(**kw))
    c["prune"] = draw(prune_params(c["docs"], c["token_type"], p_each=p_each))
    return c
