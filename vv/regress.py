"""Re-run committed regression inputs:  python -m vv.regress <prop> <out.json> <files...>"""
import json
import sys
import traceback
from collections import Counter

from vv import core
from vv.runner import replay_file


def main(argv):
    prop_id, out, files = argv[0], argv[1], argv[2:]
    known = core.KnownFindings()
    failing, excluded, err = [], Counter(), None
    for p in files:
        try:
            unmatched, matched = replay_file(prop_id, p, known, verbose=False)
        except Exception:
            err = "%s: %s" % (p, traceback.format_exc())
            continue
        excluded.update(matched)
        if unmatched:
            failing.append([p, [f.to_json() for f in unmatched]])
    with open(out, "w") as f:
        json.dump({"regress": True, "count": len(files), "failing": failing,
                   "excluded_known": dict(excluded), "harness_error": err}, f)
    return 0


if __name__ == "__main__":
    sys.exit(main(sys.argv[1:]))
