"""Exact vocabulary specification (integers and Fractions), independent of the library.

prune keys understood: min_occurrences, max_occurrences, min_frequency, max_frequency,
min_document_occurrences, max_document_occurrences, min_document_frequency,
max_document_frequency, excluded_tokens (list), excluded_token_regex, max_unique_tokens.
"""
import re
from collections import Counter
from fractions import Fraction

REL_TIE = 1e-6


def _cmp_freq(count, total, bound):
    """-1 below, +1 above, 0 too close to call (frequency bounds do not fix ties)."""
    f = Fraction(count, total)
    b = Fraction(bound)
    if abs(f - b) <= Fraction(REL_TIE) * max(abs(b), Fraction(1, 10 ** 9)):
        return 0
    return -1 if f < b else 1


def classify(items_by_doc, prune, use_exclusions=True):
    """items_by_doc: list of lists of hashable items.
    Returns (status, counts) where status[item] in {"keep", "drop", "either"} before max_unique_tokens."""
    flat = [t for d in items_by_doc for t in d]
    total = len(flat)
    ndocs = len(items_by_doc)
    cnt = Counter(flat)
    dcnt = Counter(t for d in items_by_doc for t in set(d))
    excluded = set(prune.get("excluded_tokens") or []) if use_exclusions else set()
    regex = prune.get("excluded_token_regex") if use_exclusions else None
    rx = re.compile(regex) if regex is not None else None
    status = {}
    for t in cnt:
        s = "keep"

        def upd(verdict):
            nonlocal s
            if verdict == "drop":
                s = "drop"
            elif verdict == "either" and s == "keep":
                s = "either"

        if prune.get("min_occurrences") is not None and cnt[t] < prune["min_occurrences"]:
            upd("drop")
        if prune.get("max_occurrences") is not None and cnt[t] > prune["max_occurrences"]:
            upd("drop")
        if prune.get("min_document_occurrences") is not None and dcnt[t] < prune["min_document_occurrences"]:
            upd("drop")
        if prune.get("max_document_occurrences") is not None and dcnt[t] > prune["max_document_occurrences"]:
            upd("drop")
        for key, c, n, sign in (("min_frequency", cnt[t], total, -1), ("max_frequency", cnt[t], total, 1),
                                ("min_document_frequency", dcnt[t], ndocs, -1),
                                ("max_document_frequency", dcnt[t], ndocs, 1)):
            b = prune.get(key)
            if b is None:
                continue
            c_ = _cmp_freq(c, n, b)
            if c_ == 0:
                upd("either")
            elif c_ == sign:
                upd("drop")
        if t in excluded:
            upd("drop")
        if rx is not None and isinstance(t, str) and rx.fullmatch(t) is not None:
            upd("drop")
        status[t] = s
    return status, cnt


def check_kept(kept, status, cnt, max_unique):
    """Validity predicate for a kept set.  Returns list of (kind, message)."""
    errs = []
    kept = set(kept)
    must = {t for t, s in status.items() if s == "keep"}
    may = {t for t, s in status.items() if s in ("keep", "either")}
    extra = kept - may
    if extra:
        errs.append(("kept-ineligible", "kept although a constraint excludes them: %r" % sorted(extra, key=repr)[:5]))
    unknown = kept - set(status)
    if unknown - extra:
        errs.append(("kept-unknown", "tokens not in the corpus: %r" % sorted(unknown, key=repr)[:5]))
    if max_unique is None:
        missing = must - kept
        if missing:
            errs.append(("dropped-eligible", "dropped although every constraint is met: %r" % sorted(missing, key=repr)[:5]))
        return errs
    if len(kept) > max_unique:
        errs.append(("too-many", "%d tokens kept with max_unique_tokens=%d" % (len(kept), max_unique)))
    ambiguous = may - must
    if ambiguous:
        return errs          # frequency ties make the eligible set itself ambiguous: only the cap is asserted
    if len(must) <= max_unique:
        if kept != must:
            errs.append(("dropped-eligible", "eligible set of size %d fits the cap %d but kept=%r"
                         % (len(must), max_unique, sorted(kept, key=repr)[:8])))
        return errs
    dropped = must - kept
    if kept and dropped and min(cnt[t] for t in kept) < max(cnt[t] for t in dropped):
        errs.append(("kept-less-frequent", "a kept token is less frequent than a dropped eligible one"))
    ranked = sorted((cnt[t] for t in must), reverse=True)
    threshold = ranked[max_unique]           # the (k+1)-th most frequent eligible count
    for t in must:
        if cnt[t] > threshold and t not in kept:
            errs.append(("top-dropped", "%r occurs %d times (> %d, the (k+1)-th count) but was dropped" % (t, cnt[t], threshold)))
            break
    return errs


def resolve(status, cnt, max_unique):
    """A deterministic kept set when nothing is ambiguous, following the documented top-k rule
    (strictly more frequent than the (k+1)-th).  Returns None if ambiguous."""
    if any(s == "either" for s in status.values()):
        return None
    must = [t for t, s in status.items() if s == "keep"]
    if max_unique is None or len(must) <= max_unique:
        return set(must)
    ranked = sorted((cnt[t] for t in must), reverse=True)
    thr = ranked[max_unique]
    return {t for t in must if cnt[t] > thr}
