"""Dense float64 reference of the documented EM / epsilon procedure (no imports from vectorizers)."""
import numpy as np


def colnorm(M):
    s = np.abs(M).sum(axis=0)
    out = M.copy()
    nz = s > 0
    out[:, nz] = M[:, nz] / s[nz]
    return out


def run(counts, occurrences, n_iter, epsilon, margin=1e-4):
    """counts: dense matrix of the n_iter=0 definition; occurrences: [(row, [(col, kernel weight)])].
    Returns (matrix, ambiguous) where ambiguous is True if some value came within `margin` (relative)
    of epsilon at a thresholding step (float32 vs float64 rounding may then legitimately differ)."""
    ambiguous = False

    def threshold(M):
        nonlocal ambiguous
        if epsilon > 0:
            v = M[M > 0]
            if v.size and (np.abs(v - epsilon) <= margin * epsilon).any():
                ambiguous = True
            M = M.copy()
            M[M < epsilon] = 0.0
        return M

    M = threshold(colnorm(np.asarray(counts, dtype=np.float64)))
    for _ in range(n_iter):
        P = np.zeros_like(M)
        for row, ctx in occurrences:
            post = [(c, w * M[row, c]) for c, w in ctx]
            s = sum(p for _, p in post)
            if s > 0:
                for c, p in post:
                    if p > 0:
                        P[row, c] += p / s
        M = threshold(colnorm(P))
    return M, ambiguous


def selftest():
    # one token, one context: EM is a fixed point of the normalised counts
    C = np.array([[2.0, 0.0], [0.0, 1.0]])
    occ = [(0, [(0, 1.0)]), (0, [(0, 1.0)]), (1, [(1, 1.0)])]
    M, amb = run(C, occ, 2, 0.0)
    assert np.allclose(M, np.eye(2)) and not amb
