"""Reference model of the windowed, kernel-weighted co-occurrence count (no imports from vectorizers).

All functions work on index sequences (token -> row index already applied, mask = its own index) and
return {(row, col): [value, n_events]} with col = context + block * n_cols_per_block.

A *block* is one (window, orientation) pair after 'directional' has been expanded into before, after:
    {"reverse": bool, "radius": callable(target_row_index) -> int, "kernel": "flat"|"harmonic"|"geometric",
     "power": float, "offset": int, "normalize": bool, "mix": float}
"""
import math


def expand_blocks(specs, radius_fn):
    """specs: list of window specifications (see vv.gen.cooc); radius_fn(spec_index) -> callable(target) -> int."""
    blocks = []
    for i, sp in enumerate(specs):
        base = {"radius": radius_fn(i), "kernel": sp["kernel"], "power": sp.get("power", 0.9), "offset": sp.get("offset", 0),
                "normalize": sp.get("normalize", False), "mix": sp.get("mix", 1.0), "spec": i}
        if sp["orientation"] == "directional":
            blocks.append(dict(base, reverse=True))
            blocks.append(dict(base, reverse=False))
        else:
            blocks.append(dict(base, reverse=sp["orientation"] == "before"))
    return blocks


def column_labels(specs, tokens_in_index_order):
    """Expected column_label_dictionary_ : 'pre_<i>_<token>' / 'post_<i>_<token>' per block in declared order."""
    out = {}
    n = len(tokens_in_index_order)
    b = 0
    for i, sp in enumerate(specs):
        names = ["pre", "post"] if sp["orientation"] == "directional" else ["pre"] if sp["orientation"] == "before" else ["post"]
        for nm in names:
            for j, t in enumerate(tokens_in_index_order):
                out["%s_%d_%s" % (nm, i, t)] = j + b * n
            b += 1
    return out


def _base_weights(kernel, dists, power):
    if kernel == "flat":
        return [1.0 for _ in dists]
    if kernel == "harmonic":
        return [1.0 / d for d in dists]
    if kernel == "geometric":
        return [power ** d for d in dists]
    raise ValueError(kernel)


def _finish(w, window, blk, mask_index):
    for j, c in enumerate(window):
        if mask_index is not None and c == mask_index:
            w[j] = 0.0
    for j in range(min(blk["offset"], len(w))):
        w[j] = 0.0
    if blk["normalize"]:
        t = sum(w)
        if t > 0:
            w = [x / t for x in w]
    return [x * blk["mix"] for x in w]


OCCURRENCES = None      # when set to a list, every occurrence is recorded as (row, [(col, weight)]) for the EM reference


def _emit(out, row, windows, weights, normalize_windows, n_cols):
    total = sum(sum(w) for w in weights) if normalize_windows else 0.0
    if total <= 0:
        total = 1.0
    if OCCURRENCES is not None:
        OCCURRENCES.append((row, [(c + b * n_cols, x) for b, (win, w) in enumerate(zip(windows, weights)) for c, x in zip(win, w) if x > 0]))
    for b, (win, w) in enumerate(zip(windows, weights)):
        for c, x in zip(win, w):
            v = x / total
            if v > 0:
                cell = out.setdefault((row, c + b * n_cols), [0.0, 0])
                cell[0] += v
                cell[1] += 1


def _window(seq, i, r, reverse):
    if reverse:
        return list(reversed(seq[max(i - r, 0):i]))
    return list(seq[i + 1:i + 1 + r])


def token_ref(seqs, blocks, normalize_windows, n_cols, mask_index=None):
    out = {}
    for seq in seqs:
        for i, t in enumerate(seq):
            wins, ws = [], []
            for blk in blocks:
                win = _window(seq, i, blk["radius"](t), blk["reverse"])
                w = _base_weights(blk["kernel"], range(1, len(win) + 1), blk["power"])
                wins.append(win)
                ws.append(_finish(w, win, blk, mask_index))
            _emit(out, t, wins, ws, normalize_windows, n_cols)
    return out


def timed_delta(seqs):
    """mean difference between consecutive timestamps over all sequences (0 differences -> denominator 1)."""
    s, n = 0.0, 0
    for seq in seqs:
        for a, b in zip(seq[:-1], seq[1:]):
            s += b[1] - a[1]
            n += 1
    return s / (n if n else 1)


def timed_ref(seqs, blocks, normalize_windows, n_cols, delta, mask_index=None):
    """seqs: lists of (index, timestamp) with float64 timestamps."""
    out = {}
    for seq in seqs:
        idx = [p[0] for p in seq]
        for i, (t, time) in enumerate(seq):
            wins, ws = [], []
            for blk in blocks:
                r = blk["radius"](t)
                pos = list(reversed(range(max(i - r, 0), i))) if blk["reverse"] else list(range(i + 1, min(i + 1 + r, len(seq))))
                win = [idx[p] for p in pos]
                if blk["kernel"] == "flat":
                    w = [1.0 for _ in pos]
                elif blk["kernel"] == "geometric":
                    w = [blk["power"] ** (abs(seq[p][1] - time) / delta) if delta != 0 else float("nan") for p in pos]
                else:
                    raise ValueError(blk["kernel"])
                wins.append(win)
                ws.append(_finish(w, win, blk, mask_index))
            _emit(out, t, wins, ws, normalize_windows, n_cols)
    return out


def multi_ref(docs, blocks, normalize_windows, n_cols, mask_index=None):
    """docs: list of documents, each a list of multisets (lists of indices).  The window of an element is the rest
    of its own multiset (distance 0) followed by the next / previous `radius` multisets; the radius is the one of
    row index 0 (the multiset kernels take a single radius)."""
    out = {}
    for doc in docs:
        for d_i, mset in enumerate(doc):
            for w_i, t in enumerate(mset):
                if mask_index is not None and t == mask_index:
                    continue                  # a nullified mask contributes nothing, as a target either
                wins, ws = [], []
                for blk in blocks:
                    r = blk["radius"](0)
                    if blk["reverse"]:
                        mw = list(reversed(doc[max(0, d_i - r):d_i + 1]))
                    else:
                        mw = doc[d_i:d_i + r + 1]
                    win, w = [], []
                    for k, ms in enumerate(mw):
                        base = 1.0 if blk["kernel"] == "flat" else blk["power"] ** k
                        for x in ms:
                            win.append(x)
                            w.append(base if k >= blk["offset"] else 0.0)
                    w[w_i] = 0.0                      # the element itself
                    for j, c in enumerate(win):
                        if mask_index is not None and c == mask_index:
                            w[j] = 0.0
                    if blk["normalize"]:
                        tsum = sum(w)
                        if tsum > 0:
                            w = [x / tsum for x in w]
                    wins.append(win)
                    ws.append([x * blk["mix"] for x in w])
                _emit(out, t, wins, ws, normalize_windows, n_cols)
    return out


def ngram_ref(seqs, blocks, normalize_windows, n_cols, ngram_rows, n, mask_index=None):
    """Rows are n-grams: ngram_rows maps tuple of indices -> row; the 'after' window follows the last token
    of the n-gram, the 'before' window precedes its first token; blk['radius'] takes the n-gram row index."""
    out = {}
    for seq in seqs:
        for e in range(n - 1, len(seq)):
            g = tuple(seq[e - n + 1:e + 1])
            if g not in ngram_rows:
                continue
            row = ngram_rows[g]
            wins, ws = [], []
            for blk in blocks:
                r = blk["radius"](row)
                if blk["reverse"]:
                    start = e - n + 1
                    win = list(reversed(seq[max(start - r, 0):start]))
                else:
                    win = list(seq[e + 1:e + 1 + r])
                w = _base_weights(blk["kernel"], range(1, len(win) + 1), blk["power"])
                wins.append(win)
                ws.append(_finish(w, win, blk, mask_index))
            _emit(out, row, wins, ws, normalize_windows, n_cols)
    return out


def compare(ref, got_dense, tol_abs=1e-7):
    """Compare a reference cell dict with a dense matrix.  Returns None or (row, col, got, want, n_events)."""
    import numpy as np
    want = np.zeros(got_dense.shape)
    nev = np.zeros(got_dense.shape)
    for (r, c), (v, n) in ref.items():
        if r >= want.shape[0] or c >= want.shape[1]:
            return (r, c, None, v, n)
        want[r, c] = v
        nev[r, c] = n
    tol = (nev + 2) * 2.0 ** -23 * np.abs(want) + tol_abs
    bad = np.argwhere(~(np.abs(got_dense - want) <= tol))
    if len(bad):
        r, c = bad[0]
        return (int(r), int(c), float(got_dense[r, c]), float(want[r, c]), int(nev[r, c]))
    return None


def selftest():
    # two independent formulations of the plain token count must agree: per-target windows vs per-pair distances
    seq = [0, 1, 0, 2, 1, 1, 0]
    blk = [{"reverse": False, "radius": lambda t: 2, "kernel": "harmonic", "power": 0.9, "offset": 0, "normalize": False, "mix": 1.0}]
    a = token_ref([seq], blk, False, 3)
    b = {}
    for i in range(len(seq)):
        for j in range(i + 1, min(i + 3, len(seq))):
            b[(seq[i], seq[j])] = b.get((seq[i], seq[j]), 0.0) + 1.0 / (j - i)
    assert all(abs(a[k][0] - v) < 1e-12 for k, v in b.items()) and len(a) == len(b), (a, b)
    # before is the transpose of after
    blk2 = [dict(blk[0], reverse=True)]
    c = token_ref([seq], blk2, False, 3)
    assert all(abs(c[(k[1], k[0])][0] - v[0]) < 1e-12 for k, v in a.items())
