"""Closed-form kernel weights written from the documentation (no imports from vectorizers)."""


def weights(kernel, n, power=0.9, offset=0, normalize=False, zero_positions=()):
    """Weights of the n window positions, nearest first (distance 1..n).
    flat: 1, harmonic: 1/d, geometric: power**d.  The first `offset` positions and the
    positions in zero_positions (nullified mask) are zeroed before the optional L1 normalisation."""
    if kernel == "flat":
        w = [1.0] * n
    elif kernel == "harmonic":
        w = [1.0 / d for d in range(1, n + 1)]
    elif kernel == "geometric":
        w = [power ** d for d in range(1, n + 1)]
    else:
        raise ValueError(kernel)
    for j in zero_positions:
        w[j] = 0.0
    for j in range(min(offset, n)):
        w[j] = 0.0
    if normalize:
        t = sum(w)
        if t > 0:
            w = [x / t for x in w]
    return w
