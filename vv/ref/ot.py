"""Independent optimal-transport oracles (no imports from vectorizers)."""
import numpy as np
import scipy.sparse as sp
from scipy.optimize import linprog


def _lp(p, q, C):
    n, m = C.shape
    rows = np.concatenate([np.repeat(np.arange(n), m), n + np.tile(np.arange(m), n)])
    cols = np.concatenate([np.arange(n * m), np.arange(n * m)])
    A = sp.csr_matrix((np.ones(2 * n * m), (rows, cols)), shape=(n + m, n * m))
    b = np.concatenate([p, q])
    return linprog(C.ravel(), A_eq=A, b_eq=b, bounds=(0, None), method="highs")


def dual_lower_bound(p, q, C, res=None):
    """A verified lower bound on the transportation LP optimum, from a repaired dual solution.

    Returns (lower_bound, lp_result).  Weak duality: for any u, v with u_i + v_j <= C_ij,
    p.u + q.v <= OPT.  The duals of the LP solver are only a starting point; c-transforms
    make them exactly feasible and never decrease the bound on the support of p, q.
    """
    n, m = C.shape
    scale = float(C.max())
    if scale > 0 and res is None:
        # the solver's tolerances are absolute: present it costs of order one
        lb, res = dual_lower_bound(p, q, C / scale, res=_lp(p, q, C / scale))
        if res.status == 0:
            res.fun = res.fun * scale
        return lb * scale, res
    if res is None:
        res = _lp(p, q, C)
    if res.status == 0 and getattr(res, "eqlin", None) is not None:
        marg = np.asarray(res.eqlin.marginals, dtype=np.float64)
        u = marg[:n].copy()
    else:
        u = np.zeros(n)
    best = -np.inf
    for _ in range(4):
        v = (C - u[:, None]).min(axis=0)
        u = (C - v[None, :]).min(axis=1)
        slack = float(np.max(u[:, None] + v[None, :] - C))
        slack = max(slack, 0.0)
        lb = float(p @ u + q @ v) - slack * float(p.sum())
        best = max(best, lb)
    return best, res


def exact_plan_lp(p, q, C):
    res = _lp(p, q, C)
    if res.status != 0:
        return None
    return res.x.reshape(C.shape)
