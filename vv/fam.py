"""Estimator families: a uniform, JSON-able way to generate (parameters, training data, transform data) for every
public estimator, build it, call it and canonicalise its output.  Used by the cross-cutting properties
C01, C02, C10, C12, C13.

A *spec* is {"family", "params", "train", "test"}; data are plain lists.  Item = one input element that
produces one output row (document, string, sequence, distribution, matrix row).
"""
from hypothesis import strategies as st

from vv.gen import corpora, cooc as gc

_L = {}


def lib():
    if not _L:
        import numpy as np
        import scipy.sparse as sp
        import vectorizers as v
        import vectorizers.transformers as t
        _L.update(np=np, sp=sp, v=v, t=t)
    return _L


class Fam:
    name = ""
    row_wise = True          # one output row per input item
    exact = False            # integer-valued outputs compared exactly
    rtol, atol = 1e-6, 1e-9
    svd = False              # SVD-compressed output (rank condition applies in C02)
    has_unseen = True        # transform data may contain unseen vocabulary

    def strategy(self, tier):
        raise NotImplementedError

    def make(self, spec):
        raise NotImplementedError

    def args(self, spec, data):
        """(positional X, keyword arguments) for fit / transform"""
        return data, {}

    def fit_kwargs(self, spec, data):
        return self.args(spec, data)[1]

    def n_items(self, data):
        return len(data)

    def take(self, data, idxs):
        return [data[i] for i in idxs]

    def canon(self, out, spec=None):
        """list of per-item rows (numpy 1-d arrays or lists)"""
        L = lib()
        np, sp = L["np"], L["sp"]
        if sp.issparse(out):
            return [r for r in np.asarray(out.todense(), dtype=np.float64)]
        a = np.asarray(out, dtype=np.float64)
        return [r for r in a]

    def width(self, est):
        return None


def prune_kw(prune):
    kw = dict(prune)
    if "excluded_tokens" in kw:
        kw["excluded_tokens"] = set(kw["excluded_tokens"])
    return kw


def test_docs(draw, docs, token_type, max_docs=5, max_len=10):
    alpha = sorted({t for d in docs for t in d}, key=repr)
    extra = alpha + (["zz", "yy"] if token_type == "str" else [999, 998])
    return draw(st.lists(st.lists(st.sampled_from(extra), max_size=max_len), min_size=1, max_size=max_docs))


# ------------------------------------------------------------------------------------------------ token corpora
class NgramFam(Fam):
    name = "ngram"
    exact = True

    def strategy(self, tier):
        @st.composite
        def s(draw):
            c = draw(corpora.corpus(max_docs=5, max_len=10, max_alpha=4))
            params = {"ngram_size": draw(st.sampled_from([1, 2, 2, 3])), "ngram_behaviour": draw(st.sampled_from(["exact", "subgrams"]))}
            if c["token_type"] == "str" and draw(st.booleans()):
                params["mask_string"] = "__M__"
            # pruning of n-grams with n > 1 has its own precondition (some n-gram must survive): covered by C05 / C06
            prune = draw(corpora.prune_params(c["docs"], c["token_type"], p_each=0.1)) if (params["ngram_size"] == 1 and draw(st.booleans())) else {}
            return {"family": self.name, "params": params, "prune": prune, "train": c["docs"],
                    "test": test_docs(draw, c["docs"], c["token_type"])}
        return s()

    def make(self, spec):
        return lib()["v"].NgramVectorizer(**spec["params"], **prune_kw(spec.get("prune", {})))

    def width(self, est):
        return len(est.column_label_dictionary_)


class SkipgramFam(Fam):
    name = "skipgram"
    rtol, atol = 1e-6, 1e-7

    def strategy(self, tier):
        @st.composite
        def s(draw):
            c = draw(corpora.corpus(max_docs=4, max_len=8, max_alpha=4))
            params = {"window_radius": draw(st.integers(1, 4)), "window_function": draw(st.sampled_from(["fixed", "fixed", "variable"])),
                      "kernel_function": draw(st.sampled_from(["flat", "harmonic", "geometric"]))}
            return {"family": self.name, "params": params, "prune": {}, "train": c["docs"],
                    "test": test_docs(draw, c["docs"], c["token_type"], max_docs=4, max_len=8)}
        return s()

    def make(self, spec):
        return lib()["v"].SkipgramVectorizer(window_args={}, kernel_args={}, **spec["params"])

    def width(self, est):
        return len(est.column_label_dictionary_)


class CoocFam(Fam):
    row_wise = False
    rtol, atol = 1e-5, 1e-7

    def __init__(self, kind):
        self.kind = kind
        self.name = kind + "_cooc"

    def strategy(self, tier):
        from vv.props import c03

        @st.composite
        def s(draw):
            c = draw(c03.base_case(self.kind, "quick"))
            if self.kind == "multi":
                for sp in c["specs"]:
                    sp["offset"] = 0
            extra = {"n_iter": draw(st.sampled_from([0, 0, 1, 2])), "epsilon": draw(st.sampled_from([0.0, 0.0, 0.0731, 0.21])),
                     "n_threads": draw(st.sampled_from([1, 1, 2]))}
            if draw(st.sampled_from([False, False, True])) and c["token_type"] == "str":
                c["mask"] = "__M__"
                c["nullify"] = draw(st.booleans())
            # transform data: documents over a superset alphabet
            from vv import cooc_common as cc
            fd = cc.flat_docs(self.kind, c["docs"])
            td = test_docs(draw, fd, c["token_type"], max_docs=4, max_len=10)
            if self.kind == "timed":
                td = [[[t, float(i)] for i, t in enumerate(d)] for d in td]
            elif self.kind == "multi":
                td = [[d[i:i + 2] for i in range(0, len(d), 2)] for d in td if d] or [[[fd[0][0] if fd[0] else "a"]]]
            return {"family": self.name, "case": c, "extra": extra, "train": c["docs"], "test": td}
        return s()

    def make(self, spec):
        from vv import cooc_common as cc
        return cc.build(self.kind, spec["case"], spec["extra"])

    def args(self, spec, data):
        from vv import cooc_common as cc
        return cc.lib_input(self.kind, {"docs": data}), {}

    def width(self, est):
        return len(est.column_label_dictionary_)


class TreeFam(Fam):
    name = "tree_cooc"
    row_wise = False

    def strategy(self, tier):
        from vv.props import c15

        @st.composite
        def s(draw):
            c = draw(c15.cases("quick"))
            return {"family": self.name, "case": c, "train": c["forest"], "test": c["test"]}
        return s()

    def make(self, spec):
        c = spec["case"]
        kw = dict(c["prune"])
        if "ignored_tokens" in kw:
            kw["ignored_tokens"] = set(kw["ignored_tokens"])
        return lib()["v"].LabelledTreeCooccurrenceVectorizer(kernel_function=c["kernel"], kernel_args=dict(c["kernel_args"]),
                                                             window_radius=c["radius"], window_orientation=c["orientation"],
                                                             mask_string=c["mask"], nullify_mask=c["nullify"], **kw)

    def args(self, spec, data):
        from vv.props import c15
        return c15.to_lib(lib(), data, spec["case"].get("storage", "csr")), {}


class EdgeFam(Fam):
    name = "edgelist"
    row_wise = False
    exact = True

    def strategy(self, tier):
        from vv.props import c06

        @st.composite
        def s(draw):
            c = draw(c06.edge_cases("quick"))
            return {"family": self.name, "case": c, "train": c["train"], "test": c["test"]}
        return s()

    def make(self, spec):
        c = spec["case"]
        kw = {"joint_space": c["joint_space"]}
        g, o = c.get("index_gap", 1), c.get("index_offset", 0)
        if c["fixed"] in ("row", "both"):
            kw["row_label_dictionary"] = {t: g * i + o for i, t in enumerate(c["row_labels"])}
        if c["fixed"] in ("col", "both"):
            kw["column_label_dictionary"] = {t: g * i + o for i, t in enumerate(c["col_labels"])}
        return lib()["v"].EdgeListVectorizer(**kw)


# ------------------------------------------------------------------------------------------------ strings
class LZFam(Fam):
    name = "lz"
    exact = True

    def strategy(self, tier):
        from vv.props import c16

        @st.composite
        def s(draw):
            c = draw(c16.cases("quick"))
            params = {"max_dict_size": c["max_dict_size"], "max_columns": c["max_columns"], "random_state": c["random_state"]}
            if c["base"] is not None:
                params["base_dictionary"] = c["base"]
            return {"family": self.name, "params": params, "train": c["train"], "test": c["test"]}
        return s()

    def make(self, spec):
        p = dict(spec["params"])
        if "base_dictionary" in p:
            p["base_dictionary"] = dict(p["base_dictionary"])
        return lib()["v"].LZCompressionVectorizer(**p)

    def width(self, est):
        return len(est.column_label_dictionary_)


class BPEFam(Fam):
    exact = True

    def __init__(self, return_type):
        self.return_type = return_type
        self.name = "bpe_" + return_type

    def strategy(self, tier):
        from vv.props import c09

        @st.composite
        def s(draw):
            c = draw(c09.cases("quick").filter(lambda c: c09.learnable(c["train"])))
            params = {"max_vocab_size": c["max_vocab_size"], "min_token_occurrence": c["min_token_occurrence"],
                      "max_char_code": c["max_char_code"], "return_type": self.return_type}
            return {"family": self.name, "params": params, "train": c["train"], "test": c["test"]}
        return s()

    def make(self, spec):
        return lib()["v"].BytePairEncodingVectorizer(**spec["params"])

    def canon(self, out, spec=None):
        L = lib()
        if self.return_type == "matrix":
            return Fam.canon(self, out)
        if self.return_type == "sequences":
            return [[int(c) for c in e] for e in out]
        return [list(e) for e in out]

    def width(self, est):
        return len(est.column_label_dictionary_) if self.return_type == "matrix" else None


# ------------------------------------------------------------------------------------------------ numeric sequences
class HistFam(Fam):
    name = "hist"
    exact = True
    has_unseen = True

    def strategy(self, tier):
        from vv.props import c20

        @st.composite
        def s(draw):
            c = draw(c20.hist_cases("quick"))
            params = {"n_components": c["n_components"], "strategy": c["strategy"], "absolute_range": c["range"],
                      "append_outlier_bins": c["outlier_bins"]}
            return {"family": self.name, "params": params, "train": c["train"], "test": c["test"]}
        return s()

    def make(self, spec):
        p = dict(spec["params"])
        p["absolute_range"] = tuple(p["absolute_range"])
        return lib()["v"].HistogramVectorizer(**p)

    def args(self, spec, data):
        np = lib()["np"]
        return [np.asarray(s, dtype=np.float64) for s in data], {}

    def width(self, est):
        return len(est.bin_intervals_)


class KDEFam(Fam):
    name = "kde"
    rtol, atol = 1e-9, 1e-300

    def strategy(self, tier):
        from vv.props import c20

        @st.composite
        def s(draw):
            c = draw(c20.kde_cases("quick"))
            params = {"bandwidth": c["bandwidth"], "n_components": c["n_components"], "kernel": c["kernel"],
                      "evaluation_grid_strategy": c["grid"]}
            return {"family": self.name, "params": params, "train": c["train"], "test": c["test"]}
        return s()

    def make(self, spec):
        return lib()["v"].KDEVectorizer(**spec["params"])

    def args(self, spec, data):
        np = lib()["np"]
        return [np.asarray(s, dtype=np.float64) for s in data], {}

    def width(self, est):
        return est.n_components


class DistVecFam(Fam):
    name = "distvec"
    rtol, atol = 1e-7, 1e-9
    has_unseen = False

    def strategy(self, tier):
        @st.composite
        def s(draw):
            d = draw(st.integers(1, 2))
            pt = st.lists(st.integers(-20, 20).map(lambda v: v / 4.0), min_size=d, max_size=d)
            cloud = st.lists(pt, min_size=3, max_size=8)
            train = draw(st.lists(cloud, min_size=3, max_size=5))
            test = draw(st.lists(cloud, min_size=1, max_size=4))
            # jitter deterministically so that the mixture fit is not degenerate
            for ci, c in enumerate(train + test):
                for pi, p in enumerate(c):
                    p[0] += 0.013 * ((ci * 7 + pi * 3) % 11)
            return {"family": self.name, "params": {"n_components": draw(st.integers(2, 3)), "random_state": draw(st.integers(0, 50))},
                    "train": train, "test": test}
        return s()

    def make(self, spec):
        return lib()["v"].DistributionVectorizer(**spec["params"])

    def args(self, spec, data):
        np = lib()["np"]
        return [np.asarray(c, dtype=np.float64) for c in data], {}

    def width(self, est):
        return est.n_components


class SlideFam(Fam):
    name = "slidewin"
    has_unseen = False
    rtol, atol = 1e-9, 1e-9

    def strategy(self, tier):
        from vv.props import c19

        @st.composite
        def s(draw):
            c = draw(c19.sw_cases("quick"))
            c2 = draw(c19.seqs(max(1, c["width"] - 2 * c["pad_width"]), 20, d=c["data"]["d"], dtype=c["data"]["dtype"]))
            return {"family": self.name, "case": c, "train": c["data"]["seqs"], "test": c2["seqs"]}
        return s()

    def make(self, spec):
        from vv.props import c19
        c = spec["case"]
        ws = c["window_sample"]
        if c["sample_kind"] == "pair":
            ws = tuple(ws)
        return lib()["t"].SlidingWindowTransformer(window_width=c["width"], window_stride=c["stride"], window_sample=ws,
                                                   kernels=c19.lib_kernels(c19.lib(), c["kernels"]), pad_width=c["pad_width"],
                                                   pad_value=c["pad_value"])

    def args(self, spec, data):
        np = lib()["np"]
        c = spec["case"]["data"]
        out = []
        for s in data:
            a = np.asarray(s, dtype=np.int64 if c["dtype"] == "int" else np.float64)
            out.append(a.reshape(-1, c["d"]) if c["d"] > 0 else a)
        return out, {}

    def canon(self, out, spec=None):
        np = lib()["np"]
        return [np.asarray(o, dtype=np.float64) for o in out]


class SeqDiffFam(SlideFam):
    name = "seqdiff"

    def strategy(self, tier):
        from vv.props import c19

        @st.composite
        def s(draw):
            c = draw(c19.sd_cases("quick"))
            c2 = draw(c19.seqs(c["stride"] + 1, 20, d=c["data"]["d"], dtype=c["data"]["dtype"]))
            return {"family": self.name, "case": c, "train": c["data"]["seqs"], "test": c2["seqs"]}
        return s()

    def make(self, spec):
        return lib()["t"].SequentialDifferenceTransformer(stride=spec["case"]["stride"])


# ------------------------------------------------------------------------------------------------ count matrices
class MatrixFam(Fam):
    """estimators taking a non-negative (n x m) matrix; items are rows"""
    has_unseen = False

    def rows_strategy(self, n_rows, m, draw, positive_cols=None):
        cell = st.one_of(st.just(0), st.just(0), st.integers(1, 6), st.sampled_from([0.5, 1.5, 12.0]))
        rows = draw(st.lists(st.lists(cell, min_size=m, max_size=m), min_size=n_rows[0], max_size=n_rows[1]))
        return rows

    def args(self, spec, data):
        L = lib()
        np, sp = L["np"], L["sp"]
        D = np.asarray(data, dtype=np.float64).reshape(len(data), -1)
        storage = spec.get("storage", "csr")
        if storage == "csc_unsorted":
            A = sp.csc_matrix(D)
            for j in range(A.shape[1]):
                s_, e_ = A.indptr[j], A.indptr[j + 1]
                A.indices[s_:e_] = A.indices[s_:e_][::-1].copy()
                A.data[s_:e_] = A.data[s_:e_][::-1].copy()
            A.has_sorted_indices = False
            return A, {}
        if storage == "csr_zeros":
            mask = (D != 0) | (np.arange(D.size).reshape(D.shape) % 3 == 1)
            r, c = np.nonzero(mask)
            return sp.coo_matrix((D[r, c], (r, c)), shape=D.shape).tocsr(), {}
        return sp.csr_matrix(D), {}


class IWFam(MatrixFam):
    name = "iw"
    rtol, atol = 1e-9, 1e-12

    def strategy(self, tier):
        @st.composite
        def s(draw):
            m = draw(st.integers(2, 6))
            train = self.rows_strategy((2, 8), m, draw)
            if not any(v for r in train for v in r):
                train[0][0] = 1
            train[0][0] = train[0][0] or 1
            train[-1][m - 1] = train[-1][m - 1] or 2
            test = self.rows_strategy((1, 6), m, draw)
            params = {"prior_strength": draw(st.sampled_from([1e-4, 0.1, 1.0])), "approx_prior": draw(st.booleans()),
                      "weight_power": draw(st.sampled_from([1.0, 2.0]))}
            y = draw(st.one_of(st.none(), st.lists(st.integers(0, 2), min_size=len(train), max_size=len(train))))
            return {"family": self.name, "params": params, "train": train, "test": test, "y": y}
        return s()

    def make(self, spec):
        return lib()["t"].InformationWeightTransformer(**spec["params"])

    def fit_kwargs(self, spec, data):
        np = lib()["np"]
        return {"y": np.array(spec["y"])} if spec.get("y") is not None and len(spec["y"]) == len(data) else {}

    def width(self, est):
        return len(est.information_weights_)


class RowDenoiseFam(MatrixFam):
    name = "rowdenoise"
    rtol, atol = 1e-5, 1e-7

    def strategy(self, tier):
        @st.composite
        def s(draw):
            m = draw(st.integers(2, 6))
            train = self.rows_strategy((2, 8), m, draw)
            for j in range(m):              # every column has mass in the training data (background > 0)
                if not any(r[j] for r in train):
                    train[j % len(train)][j] = 1
            test = self.rows_strategy((1, 6), m, draw)
            params = {"normalize": draw(st.booleans()), "em_prior_strength": draw(st.sampled_from([0.5, 0.3])),
                      "em_background_prior": draw(st.sampled_from([1.0, 5.0]))}
            return {"family": self.name, "params": params, "train": train, "test": test}
        return s()

    def make(self, spec):
        return lib()["t"].RowDenoisingTransformer(**spec["params"])


class CFCFam(MatrixFam):
    name = "cfc"
    svd = True
    rtol, atol = 1e-3, 1e-6

    def strategy(self, tier):
        @st.composite
        def s(draw):
            m = draw(st.integers(3, 7))
            train = self.rows_strategy((3, 8), m, draw)
            for i, r in enumerate(train):
                if not any(r):
                    r[i % m] = 1
            test = self.rows_strategy((1, 6), m, draw)
            for i, r in enumerate(test):
                if not any(r):
                    r[i % m] = 1
            params = {"n_components": draw(st.integers(1, m + 1)), "algorithm": draw(st.sampled_from(["randomized", "arpack"])),
                      "random_state": draw(st.integers(0, 100)), "rescaling_power": draw(st.sampled_from([0.5, 1.0]))}
            return {"family": self.name, "params": params, "train": train, "test": test}
        return s()

    def make(self, spec):
        return lib()["t"].CountFeatureCompressionTransformer(**spec["params"])

    def width(self, est):
        return est.components_.shape[0]


# ------------------------------------------------------------------------------------------------ distributions over vectors
class WassFam(Fam):
    """WassersteinVectorizer / SinkhornVectorizer / ApproximateWassersteinVectorizer.
    train / test data: {"W": rows of weights (n x m), "V": vectors (m x d)}  (item = row of W)"""
    svd = True
    has_unseen = False
    rtol, atol = 1e-4, 1e-6

    def __init__(self, cls, method=None, input_method="spmatrix"):
        self.cls, self.method, self.input_method = cls, method, input_method
        self.name = {"wass": "wass_%s_%s" % (method, input_method), "sinkhorn": "sinkhorn", "approx": "approx"}[cls]

    def strategy(self, tier):
        @st.composite
        def s(draw):
            m = draw(st.integers(4, 10))
            d = draw(st.integers(2, 3))
            coord = st.integers(-8, 8).map(lambda v: v / 4.0)
            V = draw(st.lists(st.lists(coord, min_size=d, max_size=d), min_size=m, max_size=m, unique_by=tuple))
            for i, vec in enumerate(V):
                if not any(vec):
                    vec[0] = 0.25 * (i + 1)
            if (self.cls == "approx" or self.method == "HeuristicLinearAlgebra") and draw(st.sampled_from([False, False, False, True])):
                # vectors spanning fewer dimensions than they have coordinates: n_components may then exceed the rank
                for vec in V:
                    vec[-1] = 0.0
                for i, vec in enumerate(V):
                    if not any(vec):
                        vec[0] = 0.25 * (i + 1)
            w = st.one_of(st.just(0), st.integers(0, 5), st.sampled_from([0.5, 2.5]))

            def rows(lo, hi):
                R = draw(st.lists(st.lists(w, min_size=m, max_size=m), min_size=lo, max_size=hi))
                for i, r in enumerate(R):
                    if sum(1 for x in r if x) < 2:
                        r[i % m] = 1
                        r[(i + 1) % m] = 2
                return R
            train, test = rows(4, 9), rows(1, 6)
            metric = draw(st.sampled_from(["cosine", "euclidean"])) if self.cls != "approx" and self.method != "HeuristicLinearAlgebra" else "euclidean"
            if metric == "cosine":
                # directions in the open positive orthant: no zero vector, no cancellation of the reference centre
                V = [[abs(x) + 0.25 for x in vec] for vec in V]
                V = [vec for i, vec in enumerate(V) if all(vec != w for w in V[:i])]
                while len(V) < m:
                    V.append([0.25 + 0.5 * len(V), 0.5] + [0.25] * (d - 2))
            params = {"random_state": draw(st.integers(0, 100))}
            if self.cls == "wass":
                params.update(method=self.method, input_method=self.input_method, metric=metric,
                              n_components=draw(st.integers(2, 4)), memory_size=draw(st.sampled_from(["2G", "2G", "1k", "200"])))
                if self.method != "HeuristicLinearAlgebra":
                    params["reference_size"] = draw(st.integers(2, 4))
                else:
                    params["heuristic_normalization_power"] = draw(st.sampled_from([1.0, 1.0, 0.66]))
                    params["n_components"] = draw(st.integers(1, d))
                if self.method == "LOT_sinkhorn":
                    params["sinkhorn_chunk_size"] = draw(st.sampled_from([32, 3, 1]))
                if self.input_method == "generator":
                    params["generator_vector_dim"] = d
            elif self.cls == "sinkhorn":
                params.update(metric=metric, n_components=draw(st.integers(2, 4)), reference_size=draw(st.integers(2, 4)),
                              memory_size=draw(st.sampled_from(["2G", "1k", "200"])), chunk_size=draw(st.sampled_from([32, 3, 1])))
            else:
                params.update(n_components=draw(st.integers(1, d)), normalization_power=draw(st.sampled_from([1.0, 1.0, 0.66])))
            if "reference_size" in params and "n_components" in params:
                # half of the cases at full rank (the regime in which C02 / C08 assert equality of compressed outputs)
                full = min(len(train), params["reference_size"] * d)
                params["n_components"] = min(full, draw(st.sampled_from([full, full, params["n_components"]])))
            return {"family": self.name, "params": params, "train": {"W": train, "V": V}, "test": {"W": test, "V": V}}
        return s()

    def make(self, spec):
        v = lib()["v"]
        p = dict(spec["params"])
        if self.cls == "wass":
            if self.input_method == "generator":
                p["generator_n_distributions"] = len(spec["train"]["W"])
            return v.WassersteinVectorizer(**p)
        if self.cls == "sinkhorn":
            return v.SinkhornVectorizer(**p)
        return v.ApproximateWassersteinVectorizer(**p)

    def n_items(self, data):
        return len(data["W"])

    def take(self, data, idxs):
        return {"W": [data["W"][i] for i in idxs], "V": data["V"]}

    def args(self, spec, data):
        L = lib()
        np, sp = L["np"], L["sp"]
        W = np.asarray(data["W"], dtype=np.float64)
        V = np.asarray(data["V"], dtype=np.float64)
        if self.cls != "wass" or self.input_method == "spmatrix":
            return sp.csr_matrix(W), {"vectors": V}
        dists = [W[i][W[i] > 0].copy() for i in range(W.shape[0])]
        vecs = [V[W[i] > 0].copy() for i in range(W.shape[0])]
        if self.input_method == "lil":
            return dists, {"vectors": vecs}
        return (x for x in dists), {"vectors": (x for x in vecs)}

    def transform_args(self, spec, data, est):
        X, kw = self.args(spec, data)
        if self.cls == "approx" or (self.cls == "wass" and self.method == "HeuristicLinearAlgebra"):
            return X, {}
        if self.cls == "wass" and self.input_method == "generator":
            est.generator_n_distributions = len(data["W"])
        return X, kw

    def fit_kwargs(self, spec, data):
        kw = self.args(spec, data)[1]
        explicit = spec.get("explicit_reference") and self.cls in ("wass", "sinkhorn") and self.method != "HeuristicLinearAlgebra"
        if (self.cls == "wass" and self.input_method == "generator") or explicit:
            L = lib()
            np = L["np"]
            # generator input needs explicit references
            V = np.asarray(data["V"], dtype=np.float64)
            k = spec["params"].get("reference_size", 3)
            ref = V[:k].copy()
            if spec["params"]["metric"] == "cosine":
                ref = ref / np.sqrt((ref ** 2).sum(axis=1, keepdims=True))
            kw = dict(kw, reference_vectors=ref)
            if explicit:
                kw["reference_distribution"] = np.full(ref.shape[0], 1.0 / ref.shape[0])
        return kw

    def width(self, est):
        return est.components_.shape[0]


def all_families():
    fams = [NgramFam(), SkipgramFam(), LZFam(), BPEFam("sequences"), BPEFam("tokens"), BPEFam("matrix"), HistFam(), KDEFam(), DistVecFam(),
            SlideFam(), SeqDiffFam(), IWFam(), RowDenoiseFam(), CFCFam(), EdgeFam(), TreeFam(),
            CoocFam("token"), CoocFam("timed"), CoocFam("multi"), CoocFam("ngram"),
            WassFam("wass", "LOT_exact", "spmatrix"), WassFam("wass", "LOT_exact", "lil"), WassFam("wass", "LOT_exact", "generator"),
            WassFam("wass", "LOT_sinkhorn", "spmatrix"), WassFam("wass", "HeuristicLinearAlgebra", "spmatrix"),
            WassFam("sinkhorn"), WassFam("approx")]
    return {f.name: f for f in fams}


FAMS = None


def get(name):
    global FAMS
    if FAMS is None:
        FAMS = all_families()
    return FAMS[name]


def fit_call(fam, est, spec, op="fit"):
    X, kw = fam.args(spec, spec["train"])
    kw = fam.fit_kwargs(spec, spec["train"])
    if getattr(fam, "input_method", None) == "generator" and hasattr(est, "generator_n_distributions"):
        est.generator_n_distributions = fam.n_items(spec["train"])      # the declared count follows the data
    return getattr(est, op)(X, **kw)


def transform_call(fam, est, spec, data):
    if hasattr(fam, "transform_args"):
        X, kw = fam.transform_args(spec, data, est)
    else:
        X, kw = fam.args(spec, data)
    return est.transform(X, **kw)
