"""Execute one (property, family, shard) under Hypothesis (or exhaustively) and write a JSON report.

usage: python -m vv.shard <prop> <family> <tier> <seed> <shard> <nshards> <out.json>

Exit status: 0 report written (whatever it contains); anything else = harness problem
(the runner also treats death by signal as a crash of this shard).
"""
import importlib
import json
import os
import random
import sys
import time
import traceback
from collections import Counter


def main(argv):
    prop_id, fam_name, tier, base_seed, shard, nshards, out = argv
    base_seed, shard, nshards = int(base_seed), int(shard), int(nshards)
    from vv import core
    mod = importlib.import_module("vv.props.%s" % prop_id.lower())
    fam = mod.FAMILIES[fam_name]
    known = core.KnownFindings()
    t0 = time.time()

    st = {
        "evaluations": 0,
        "nontrivial": set(),
        "labels": Counter(),
        "excluded_known": Counter(),
        "inconclusive": Counter(),
        "samples": {},
        "first": None,
        "last": None,
    }
    muted = set()          # failure signatures already reported in this shard
    violations = []        # [{signature, case, failures}]
    harness_error = None
    last_fail = {}

    class Violation(Exception):
        pass

    cur_path = out + ".cur"

    def run_case(case):
        with open(cur_path, "w") as cf:   # lets the runner name the case if this interpreter dies
            cf.write(core.canon_json(case))
        res = fam.check(case)
        d = core.digest(case)
        st["evaluations"] += 1
        if res.nontrivial:
            st["nontrivial"].add(d)
        for l in res.labels:
            st["labels"][l] += 1
        if res.inconclusive:
            st["inconclusive"][res.inconclusive] += 1
        if st["first"] is None:
            st["first"] = case
        st["last"] = case
        # keep the 3 cases with smallest digest among non-trivial ones: a deterministic "random" sample
        if res.nontrivial:
            st["samples"][d] = case
            if len(st["samples"]) > 3:
                del st["samples"][max(st["samples"])]
        unmatched = []
        for f in res.failures:
            fid = known.match(prop_id, f)
            if fid is not None:
                st["excluded_known"][fid] += 1
            elif f.signature() in muted:
                st["excluded_known"]["(already reported this run) %s @ %s" % f.signature()] += 1
            else:
                unmatched.append(f)
        return unmatched

    n_total = int(os.environ.get("VERIF_EXAMPLES_OVERRIDE") or fam.examples[tier])
    n_here = max(1, (n_total + nshards - 1) // nshards)
    exhaustive = None

    if fam.enumerate_cases is not None:
        count = 0
        for i, case in enumerate(fam.enumerate_cases(tier)):
            if i % nshards != shard:
                continue
            count += 1
            try:
                unmatched = run_case(case)
            except Exception:
                harness_error = traceback.format_exc()
                break
            if unmatched:
                sig = unmatched[0].signature()
                muted.add(sig)
                violations.append({"signature": list(sig), "case": case,
                                   "failures": [f.to_json() for f in unmatched]})
        exhaustive = {"name": fam.exhaustive_name or fam_name, "cases_in_shard": count}
    else:
        import hypothesis
        from hypothesis import given, settings, HealthCheck, Phase, seed as hseed

        phases = [Phase.generate, Phase.shrink]
        if os.environ.get("VERIF_NO_SHRINK") == "1":
            phases = [Phase.generate]
        strat = fam.strategy(tier)
        for attempt in range(6):   # keep searching behind each newly found root cause
            sd = core.derive_seed(base_seed, prop_id, fam_name, shard, attempt)
            last_fail.clear()

            @hseed(sd)
            @settings(max_examples=n_here, deadline=None, database=None, report_multiple_bugs=False,
                      suppress_health_check=list(HealthCheck), phases=phases, print_blob=False)
            @given(strat)
            def test(case):
                unmatched = run_case(case)
                if unmatched:
                    last_fail["case"] = case
                    last_fail["failures"] = unmatched
                    # provisional record: if this interpreter is stopped while shrinking, the runner still gets the violation
                    best = last_fail.get("best")
                    if best is None or len(core.canon_json(case)) < best:
                        last_fail["best"] = len(core.canon_json(case))
                        with open(out + ".partial", "w") as pf:
                            pf.write(core.canon_json({"family": fam_name, "shard": shard, "violations": violations + [
                                {"signature": list(unmatched[0].signature()), "case": case, "failures": [f.to_json() for f in unmatched]}]}))
                    raise Violation(repr(unmatched[0]))

            try:
                test()
                break
            except Violation:
                fs = last_fail["failures"]
                sig = fs[0].signature()
                muted.add(sig)
                violations.append({"signature": list(sig), "case": last_fail["case"],
                                   "failures": [f.to_json() for f in fs]})
                continue
            except BaseException as e:  # anything else is a problem in the machinery, never a verdict
                if isinstance(e, KeyboardInterrupt):
                    raise
                harness_error = traceback.format_exc()
                if "case" in last_fail:
                    harness_error += "\n(last failing case: %s)" % core.canon_json(last_fail["case"])[:800]
                break

    samples = []
    if st["first"] is not None:
        samples.append(st["first"])
    for d in sorted(st["samples"]):
        samples.append(st["samples"][d])
    if st["last"] is not None and st["last"] is not st["first"]:
        samples.append(st["last"])
    report = {
        "property": prop_id, "family": fam_name, "tier": tier, "shard": shard, "nshards": nshards,
        "evaluations": st["evaluations"],
        "nontrivial_digests": sorted(st["nontrivial"]),
        "labels": dict(st["labels"]),
        "excluded_known": dict(st["excluded_known"]),
        "inconclusive": dict(st["inconclusive"]),
        "samples": [core.truncate(s) for s in samples],
        "violations": violations,
        "harness_error": harness_error,
        "exhaustive": exhaustive,
        "wall_s": time.time() - t0,
    }
    with open(out, "w") as f:
        f.write(core.canon_json(report))
    for extra in (cur_path, out + ".partial"):
        try:
            os.unlink(extra)
        except OSError:
            pass
    return 0


if __name__ == "__main__":
    sys.exit(main(sys.argv[1:]))
