"""Shared machinery for the co-occurrence properties (C03, C04, C11, C14, C01, C02):
build the estimator from a case, compute the kept vocabulary and index sequences independently,
and produce the reference cell dictionary and the expected label dictionaries."""
from collections import Counter

from vv.ref import vocab, cooc as rc

_L = {}


def lib():
    if not _L:
        import numpy as np
        import vectorizers as v
        from vectorizers._window_kernels import variable_window_radii
        _L.update(np=np, token=v.TokenCooccurrenceVectorizer, timed=v.TimedTokenCooccurrenceVectorizer,
                  multi=v.MultiSetCooccurrenceVectorizer, ngram=v.NgramCooccurrenceVectorizer, vwr=variable_window_radii)
    return _L


def est_prune_kwargs(prune):
    kw = dict(prune)
    if "excluded_tokens" in kw:
        kw["excluded_tokens"] = set(kw["excluded_tokens"])
    return kw


def lib_input(kind, case):
    """The training input in the form the estimator takes."""
    docs = case["docs"]
    if kind == "timed":
        return [[(t, float(ts)) for t, ts in d] for d in docs]
    if kind == "multi":
        return [[list(ms) for ms in d] for d in docs]
    return [list(d) for d in docs]


def flat_docs(kind, docs):
    """documents as flat token lists (for the vocabulary specification)"""
    if kind == "timed":
        return [[t for t, _ in d] for d in docs]
    if kind == "multi":
        return [[t for ms in d for t in ms] for d in docs]
    return [list(d) for d in docs]


class Expectation:
    pass


def expectation(kind, case, fitted_tokens=None, data=None):
    """Independent expectation for one case.  fitted_tokens: the estimator's kept token set, used only when the
    specification leaves the vocabulary ambiguous (frequency ties / top-k ties) and after it passed check_kept.
    data: documents to count over (default: the training documents) -- the vocabulary, frequencies, radii and
    delta always come from the training documents."""
    L = lib()
    np = L["np"]
    e = Expectation()
    docs = case["docs"]
    prune, mask, nullify = case.get("prune", {}), case.get("mask"), case.get("nullify", False)
    fd = flat_docs(kind, docs)
    status, cnt = vocab.classify(fd, prune)
    kept = vocab.resolve(status, cnt, prune.get("max_unique_tokens"))
    e.vocab_errors = []
    if fitted_tokens is not None:
        e.vocab_errors = vocab.check_kept(fitted_tokens, status, cnt, prune.get("max_unique_tokens"))
        if kept is None or (prune.get("max_unique_tokens") is not None):
            kept = set(fitted_tokens)
    e.ambiguous = kept is None
    if kept is None:
        return e
    e.kept = kept
    order = sorted(kept)
    e.index = {t: i for i, t in enumerate(order)}
    n_tok = len(order)
    e.mask_index_entry = None
    if mask is not None:
        e.index[mask] = n_tok
        e.mask_index_entry = n_tok
    e.n_cols = len(e.index)
    e.tokens_in_order = sorted(e.index, key=lambda t: e.index[t])
    e.nullified = n_tok if (mask is not None and nullify) else None
    total = sum(len(d) for d in fd)
    e.freq = np.array([np.float32(cnt[t]) / total for t in order], dtype=np.float32) if total else np.zeros(0, dtype=np.float32)

    def conv(t):
        return e.index[t] if t in kept else e.mask_index_entry

    def index_docs(dd):
        if kind == "timed":
            out = [[(conv(t), float(ts)) for t, ts in d if (t in kept or mask is not None)] for d in dd]
        elif kind == "multi":
            out = [[[conv(t) for t in ms if (t in kept or mask is not None)] for ms in d] for d in dd]
        else:
            out = [[conv(t) for t in d if (t in kept or mask is not None)] for d in dd]
        return out
    e.train_seqs = index_docs(docs)
    e.seqs = index_docs(data) if data is not None else e.train_seqs
    specs = case["specs"]
    e.specs = specs
    e.row_labels = dict(e.index)
    e.n_rows = len(e.index)
    row_freq = e.freq
    n = case.get("ngram_size", 1)
    if kind == "ngram":
        # second stage: n-grams of the kept sequences, pruned with the same bounds (no exclusions)
        grams = [[tuple(s[i:i + n]) for i in range(len(s) - n + 1)] for s in e.train_seqs]
        st2, cnt2 = vocab.classify(grams, prune, use_exclusions=False)
        kept2 = vocab.resolve(st2, cnt2, prune.get("max_unique_tokens"))
        if kept2 is None:
            e.ambiguous = True
            return e
        gorder = sorted(kept2)
        e.ngram_rows = {g: i for i, g in enumerate(gorder)}
        inv = {i: t for t, i in e.index.items()}
        e.row_labels = {"_".join(str(inv[i]) for i in g): r for g, r in e.ngram_rows.items()}
        e.n_rows = len(gorder)
        tot2 = sum(len(g) for g in grams)
        row_freq = np.array([np.float32(cnt2[g]) / tot2 for g in gorder], dtype=np.float32) if tot2 else np.zeros(0, dtype=np.float32)
        e.ngram_kept_empty = len(gorder) == 0
    e.row_freq = row_freq
    # the mask n-gram / mask token gets radius 0 when nullified
    null_row = e.nullified
    if kind == "ngram" and e.nullified is not None:
        null_row = e.ngram_rows.get(tuple([e.nullified] * n))

    def radius_fn(i):
        sp = specs[i]
        if sp["window"] == "fixed":
            r = int(sp["radius"])
            return lambda t, r=r: 0 if (null_row is not None and t == null_row) else r
        if len(row_freq) == 0:
            return lambda t: 0
        rr = L["vwr"](sp["radius"], row_freq, null_row, sp["window_power"])
        return lambda t, rr=rr: int(rr[t])
    e.blocks = rc.expand_blocks(specs, radius_fn)
    nw = case.get("normalize_windows", True)
    rc.OCCURRENCES = []
    if kind == "token":
        e.cells = rc.token_ref(e.seqs, e.blocks, nw, e.n_cols, e.nullified)
    elif kind == "timed":
        e.delta = rc.timed_delta(e.train_seqs)
        e.cells = rc.timed_ref(e.seqs, e.blocks, nw, e.n_cols, e.delta, e.nullified) if e.delta != 0 or all(
            b["kernel"] == "flat" for b in e.blocks) else None
    elif kind == "multi":
        e.cells = rc.multi_ref(e.seqs, e.blocks, nw, e.n_cols, e.nullified)
    else:
        e.cells = rc.ngram_ref(e.seqs, e.blocks, nw, e.n_cols, e.ngram_rows, n, e.nullified)
    e.occurrences, rc.OCCURRENCES = rc.OCCURRENCES, None
    e.col_labels = rc.column_labels(specs, e.tokens_in_order)
    return e


def build(kind, case, extra=None):
    from vv.gen import cooc as gc
    L = lib()
    kw = gc.estimator_kwargs(case["specs"])
    kw.update(est_prune_kwargs(case.get("prune", {})))
    kw["normalize_windows"] = case.get("normalize_windows", True)
    if case.get("mask") is not None:
        kw["mask_string"] = case["mask"]
        kw["nullify_mask"] = bool(case.get("nullify", False))
    if kind == "ngram":
        kw["ngram_size"] = case.get("ngram_size", 2)
    if extra:
        kw.update(extra)
    return L[kind](**kw)


def norm_dict(d):
    return {(k.item() if hasattr(k, "item") else k): int(v) for k, v in d.items()}


def cell_matrix(np, cells, shape):
    """dense float64 matrix + event counts from a reference cell dict"""
    W = np.zeros(shape)
    N = np.zeros(shape)
    for (r, c), (v, n) in cells.items():
        W[r, c] = v
        N[r, c] = n
    return W, N


def degenerate(kind, case):
    """True when the corpus leaves nothing to learn (outside every property's quantifier): no kept token besides the
    mask, no surviving n-gram row, or a vocabulary the specification leaves ambiguous."""
    e = expectation(kind, case)
    if e.ambiguous:
        return True
    if not e.kept:
        return True
    if kind == "ngram" and e.n_rows == 0:
        return True
    return False
