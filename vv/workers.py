"""Persistent child interpreters with a chosen environment (differential execution).

Parent:  w = Worker({"NUMBA_BOUNDSCHECK": "1"});  status, value = w.call("module.function", payload)
Child:   python -m vv.workers   (reads length-prefixed pickles on stdin, writes them on stdout)

status is "ok" (value = function result), "exc" (value = {"type", "msg", "tb"}: the function raised)
or "crash" (value = {"returncode"}: the interpreter died; it is restarted on the next call).
"""
import importlib
import os
import pickle
import struct
import subprocess
import sys
import traceback


def _send(f, obj):
    b = pickle.dumps(obj, protocol=4)
    f.write(struct.pack("<Q", len(b)))
    f.write(b)
    f.flush()


def _recv(f):
    h = f.read(8)
    if len(h) < 8:
        raise EOFError
    (n,) = struct.unpack("<Q", h)
    b = f.read(n)
    if len(b) < n:
        raise EOFError
    return pickle.loads(b)


class Worker:
    def __init__(self, env=None, name=""):
        self.extra = {k: str(v) for k, v in (env or {}).items()}
        self.name = name or ",".join("%s=%s" % kv for kv in sorted(self.extra.items())) or "default"
        self.proc = None
        self.restarts = 0

    def start(self):
        from vv.runner import shard_env
        env = shard_env(self.extra)
        self.proc = subprocess.Popen([sys.executable, "-W", "ignore", "-m", "vv.workers"], stdin=subprocess.PIPE, stdout=subprocess.PIPE,
                                     env=env, cwd=os.path.dirname(os.path.dirname(os.path.abspath(__file__))))

    def call(self, fn, payload, timeout=None):
        if self.proc is None or self.proc.poll() is not None:
            self.start()
        try:
            _send(self.proc.stdin, (fn, payload))
            return _recv(self.proc.stdout)
        except (EOFError, BrokenPipeError, OSError):
            rc = self.proc.wait()
            self.proc = None
            self.restarts += 1
            return "crash", {"returncode": rc}

    def close(self):
        if self.proc is not None and self.proc.poll() is None:
            try:
                self.proc.stdin.close()
                self.proc.wait(timeout=5)
            except Exception:
                self.proc.kill()
        self.proc = None


_POOL = {}


def get(env, name=""):
    key = tuple(sorted((env or {}).items()))
    if key not in _POOL:
        _POOL[key] = Worker(env, name)
    return _POOL[key]


def child_main():
    out = sys.stdout.buffer
    inp = sys.stdin.buffer
    sys.stdout = sys.stderr          # library prints must not corrupt the channel
    while True:
        try:
            fn, payload = _recv(inp)
        except EOFError:
            return 0
        try:
            mod, name = fn.rsplit(".", 1)
            f = getattr(importlib.import_module(mod), name)
            res = ("ok", f(payload))
        except BaseException as e:  # report, keep serving
            if isinstance(e, (KeyboardInterrupt, SystemExit)):
                raise
            res = ("exc", {"type": type(e).__name__, "msg": str(e)[:500], "tb": traceback.format_exc(limit=8)[-1500:]})
        _send(out, res)


if __name__ == "__main__":
    sys.exit(child_main())
