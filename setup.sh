#!/bin/sh
# setup_cmd: offline; makes sure the interpreter used by the checks has hypothesis, and self-tests the reference models.
cd "$(dirname "$0")" || exit 2
if ! /venv/bin/python -c "import hypothesis" 2>/dev/null; then
  /venv/bin/pip install --no-index --find-links /opt/veriftools/wheels hypothesis || exit 2
fi
PYTHONPATH="${VERIF_REPO:-/repo}:$(pwd)" /venv/bin/python -W ignore -m vv.selftest || exit 2
echo "setup ok"
